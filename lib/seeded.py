#!/usr/bin/env python3
"""Confirm an independently written property-breaking change and run the checks on it.

  lib/seeded.py <ID> <name> <worktree> <pkg> <demo-run-regex> [--checks C21,C20] [-- extra check args]

Steps (all recorded in /verif/seeded/<name>/meta.json):
 1. in the scratch worktree: with the patch applied the demonstration FAILS and the
    package's own tests (demonstration file moved aside) PASS; with the patch reverted
    the demonstration PASSES;
 2. the patch is applied to /repo (git apply), the listed checks' quick tier is run,
    and /repo is restored (git checkout -- .);
 3. patch.diff, the demonstration and NOTES.md are copied to /verif/seeded/<name>/.
"""
import json, os, shutil, subprocess, sys, time, glob

VERIF = os.path.dirname(os.path.dirname(os.path.abspath(__file__)))
REPO = "/repo"
ENV = dict(os.environ, GOFLAGS="-mod=mod", GOPROXY="off")


def sh(cmd, cwd, timeout=1800):
    r = subprocess.run(cmd, cwd=cwd, shell=True, stdout=subprocess.PIPE, stderr=subprocess.STDOUT, text=True, env=ENV, timeout=timeout)
    return r.returncode, r.stdout


def main():
    args = sys.argv[1:]
    extra = []
    if "--" in args:
        i = args.index("--")
        args, extra = args[:i], args[i + 1:]
    checks = None
    if "--checks" in args:
        i = args.index("--checks")
        checks = args[i + 1].split(",")
        args = args[:i] + args[i + 2:]
    pid, name, wt, pkg, demo = args[:5]
    checks = checks or [pid]
    sd = os.path.join(wt, "_seeded")
    patch = os.path.join(sd, "patch.diff")
    meta = {"property": pid, "name": name, "package": pkg, "demo_run": demo, "ran": []}
    demos = glob.glob(os.path.join(wt, "**", "zz_seeded_demo*_test.go"), recursive=True)
    demos = [d for d in demos if "_seeded" not in os.path.relpath(d, wt).split(os.sep)[0]]
    # make sure the patch is applied in the worktree
    rc, _ = sh("git apply --check -R %s" % patch, wt)
    if rc != 0:
        rc, out = sh("git apply %s" % patch, wt)
        if rc != 0:
            print("cannot apply patch in worktree:\n" + out)
            return 2
    def step(label, cmd, cwd, want_ok):
        t0 = time.time()
        rc, out = sh(cmd, cwd)
        ok = (rc == 0) == want_ok
        meta["ran"].append({"step": label, "cmd": cmd, "exit": rc, "as_expected": ok, "seconds": round(time.time() - t0, 1), "tail": out[-600:]})
        print("%-60s exit=%d %s" % (label, rc, "OK" if ok else "UNEXPECTED"))
        return ok
    good = True
    good &= step("build with the patch", "go build ./%s/..." % pkg, wt, True)
    good &= step("demonstration with the patch (must fail)", "go test -count=1 -run '%s' ./%s/" % (demo, pkg), wt, False)
    moved = []
    for d in demos:
        shutil.move(d, d + ".aside")
        moved.append(d)
    good &= step("package tests with the patch, demo aside (must pass)", "go test -count=1 ./%s/..." % pkg, wt, True)
    for d in moved:
        shutil.move(d + ".aside", d)
    sh("git apply -R %s" % patch, wt)
    good &= step("demonstration without the patch (must pass)", "go test -count=1 -run '%s' ./%s/" % (demo, pkg), wt, True)
    sh("git apply %s" % patch, wt)
    meta["confirmed"] = bool(good)
    # run the checks against it
    dirty = subprocess.run(["git", "-C", REPO, "status", "--porcelain"], capture_output=True, text=True).stdout.strip()
    if dirty:
        print("/repo is dirty, refusing")
        return 2
    results = {}
    try:
        r = subprocess.run(["git", "-C", REPO, "apply", patch])
        if r.returncode != 0:
            print("patch does not apply to /repo")
            return 2
        for cid_ in checks:
            t0 = time.time()
            r = subprocess.run([os.path.join(VERIF, "check"), cid_, "--no-evidence"] + extra, capture_output=True, text=True)
            viol = [l for l in r.stdout.splitlines() if l.startswith("violation class")]
            results[cid_] = {"exit": r.returncode, "seconds": round(time.time() - t0, 1), "caught": r.returncode == 1, "first_violation": (viol[0][:400] if viol else "")}
            print("check %s on the seeded change: exit=%d (%s) %s" % (cid_, r.returncode, "CAUGHT" if r.returncode == 1 else "missed" if r.returncode == 0 else "trouble", viol[0][:200] if viol else ""))
            if r.returncode == 2:
                print(r.stdout[-1500:])
    finally:
        subprocess.run(["git", "-C", REPO, "checkout", "--", "."])
        subprocess.run(["rm", "-rf", os.path.join(VERIF, "replays")])
    meta["checks"] = results
    meta["needs"] = ""
    out = os.path.join(VERIF, "seeded", name)
    os.makedirs(out, exist_ok=True)
    shutil.copy(patch, os.path.join(out, "patch.diff"))
    for f in glob.glob(os.path.join(sd, "*")):
        if os.path.isfile(f) and not f.endswith("patch.diff"):
            shutil.copy(f, out)
    old = os.path.join(out, "meta.json")
    if os.path.exists(old):
        try:
            meta["needs"] = json.load(open(old)).get("needs", "")
        except Exception:
            pass
    json.dump(meta, open(old, "w"), indent=1)
    return 0 if good else 3


if __name__ == "__main__":
    sys.exit(main())
