#!/usr/bin/env python3
"""Add (or refresh) a claimed check in MANIFEST.json and drop it from not_applicable.

  lib/claim.py <ID> <level> <technique> <text> [<level_note>]
"""
import json, sys

M = '/verif/MANIFEST.json'
pid, level, tech, text = sys.argv[1:5]
note = sys.argv[5] if len(sys.argv) > 5 else "patched go1.26.8 runtime, one P, yield-point granularity; seeded sampling of schedules/faults, not proof; simulated seams as listed in the evidence file"
m = json.load(open(M))
m['not_applicable'] = [x for x in m['not_applicable'] if x['property_id'] != pid]
m['checks'] = [c for c in m['checks'] if c['property_id'] != pid]
m['checks'].append({
    "property_id": pid,
    "quick_cmd": "./check %s --tier quick" % pid,
    "thorough_cmd": "./check %s --tier thorough" % pid,
    "evidence_file": "/verif/evidence/%s.json" % pid,
    "replay_cmd_template": "./check %s --replay {path}" % pid,
    "engine": "detsim",
    "level_claimed": {"category": level, "text": text, "design_ref": "DESIGN.md §7 %s" % pid},
    "level_note": note,
    "technique": tech,
})
m['checks'].sort(key=lambda c: c['property_id'])
m['engines'][0]['serves_properties'] = sorted(c['property_id'] for c in m['checks'])
json.dump(m, open(M, 'w'), indent=1)
print("claimed", pid, "; checks:", [c['property_id'] for c in m['checks']])
