#!/usr/bin/env python3
"""Print a markdown summary of what the checks covered: one row per claimed check from
evidence/<ID>.json (last run) and, below, the deeper / other-seed runs of runs_log.jsonl.

  lib/summary.py            # markdown to stdout (pasted into DESIGN.md 12.8)
"""
import glob, json, os

VERIF = os.path.dirname(os.path.dirname(os.path.abspath(__file__)))


def top(d, n=4):
    items = sorted(d.items(), key=lambda kv: -kv[1])[:n]
    return ", ".join("%s %d" % kv for kv in items) or "-"


def main():
    print("| check | tier | runs | distinct | runs/h | sim. time | switches | faults fired (top) | yield sites |")
    print("|---|---|---|---|---|---|---|---|---|")
    for f in sorted(glob.glob(os.path.join(VERIF, "evidence", "C*.json"))):
        e = json.load(open(f))
        c = e["coverage"]
        print("| %s | %s s%d | %d | %d | %.1fM | %.0f s | %d | %s | %d |" % (
            e["property_id"], e["tier"], e["seed"], c["evaluations"], c["distinct_nontrivial"], c["runs_per_hour"] / 1e6,
            c["simulated_time_s"], c["context_switches"], top(c["faults_fired"]), c["yield_sites_inserted"]))
    p = os.path.join(VERIF, "runs_log.jsonl")
    if not os.path.exists(p):
        return
    agg = {}
    for line in open(p):
        r = json.loads(line)
        k = (r["property_id"], r["tier"])
        a = agg.setdefault(k, {"seeds": set(), "runs": 0, "distinct": 0, "wall": 0.0, "viol": 0, "trouble": 0, "sim": 0.0, "known": {}, "heads": set(), "dirty": 0})
        a["seeds"].add(r["seed"])
        a["runs"] += r["evaluations"]
        a["distinct"] += r["distinct_nontrivial"]
        a["wall"] += r["wall_s"]
        a["viol"] += r["violations"]
        a["trouble"] += r.get("troubles", 0)
        a["sim"] += r.get("simulated_time_s", 0)
        a["heads"].add(r.get("repo_head", "?"))
        a["dirty"] += 1 if r.get("repo_dirty") else 0
        for kk, v in (r.get("known_findings_observed") or {}).items():
            a["known"][kk] = a["known"].get(kk, 0) + v
    print()
    print("| check | tier | seeds | runs | distinct (sum) | wall | sim. time | violations | known findings observed | /repo heads |")
    print("|---|---|---|---|---|---|---|---|---|---|")
    for (pid, tier), a in sorted(agg.items()):
        print("| %s | %s | %s | %d | %d | %.0f min | %.0f s | %d%s | %d | %s%s |" % (
            pid, tier, ",".join(str(s) for s in sorted(a["seeds"])), a["runs"], a["distinct"], a["wall"] / 60, a["sim"], a["viol"],
            (" (+%d trouble)" % a["trouble"]) if a["trouble"] else "", sum(a["known"].values()), ",".join(sorted(a["heads"])),
            " (%d on a modified tree)" % a["dirty"] if a["dirty"] else ""))


if __name__ == "__main__":
    main()
