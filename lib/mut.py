#!/usr/bin/env python3
"""Sensitivity helper: apply a hand-made property-breaking change to /repo's
working tree, run a check, and restore the tree.

  lib/mut.py <ID> <name> <file> <old> <new> [-- extra check args]
  lib/mut.py <ID> <name> --diff <patchfile> [-- extra check args]

The change is saved as /verif/mutants/<ID>/<name>.diff. /repo is restored with
`git checkout -- .` even if the check crashes. Exit status: 0 if the check
reported a VIOLATION (mutant caught), 3 if it did not.
"""
import os, subprocess, sys, time

VERIF = os.path.dirname(os.path.dirname(os.path.abspath(__file__)))
REPO = "/repo"


def main():
    args = sys.argv[1:]
    extra = []
    if "--" in args:
        i = args.index("--")
        args, extra = args[:i], args[i + 1:]
    pid, name = args[0], args[1]
    dirty = subprocess.run(["git", "-C", REPO, "status", "--porcelain"], capture_output=True, text=True).stdout.strip()
    if dirty:
        print("mut: /repo is dirty, refusing:\n" + dirty)
        return 2
    try:
        if args[2] == "--diff":
            r = subprocess.run(["git", "-C", REPO, "apply", os.path.abspath(args[3])])
            if r.returncode != 0:
                return 2
        else:
            f, old, new = args[2], args[3], args[4]
            p = os.path.join(REPO, f)
            s = open(p).read()
            if s.count(old) != 1:
                print("mut: anchor occurs %d times in %s" % (s.count(old), f))
                return 2
            open(p, "w").write(s.replace(old, new))
        d = subprocess.run(["git", "-C", REPO, "diff"], capture_output=True, text=True).stdout
        os.makedirs(os.path.join(VERIF, "mutants", pid), exist_ok=True)
        open(os.path.join(VERIF, "mutants", pid, name + ".diff"), "w").write(d)
        t0 = time.time()
        r = subprocess.run([os.path.join(VERIF, "check"), pid, "--no-evidence"] + extra, capture_output=True, text=True)
        dt = time.time() - t0
        viol = [l for l in r.stdout.splitlines() if l.startswith("VIOLATION") or l.startswith("violation class")]
        print("mutant %s/%s: exit=%d in %.0fs; %d VIOLATION lines" % (pid, name, r.returncode, dt, sum(1 for l in viol if l.startswith("VIOLATION"))))
        for l in viol[:4]:
            print("   ", l[:300])
        if r.returncode == 2:
            print(r.stdout[-2000:])
        return 0 if r.returncode == 1 else 3
    finally:
        subprocess.run(["git", "-C", REPO, "checkout", "--", "."])
        subprocess.run(["rm", "-rf", os.path.join(VERIF, "replays")])


if __name__ == "__main__":
    sys.exit(main())
