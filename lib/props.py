"""Per-property check table used by /verif/check."""

COMMON_ASSUMPTIONS = [
    "go1.26.8 with a build-time patched runtime (seeded select/map/rand, durable mutex waits, no sysmon preemption); every patched choice is one the stock runtime may make",
    "one P: all orderings of segments between yield points are reachable, true parallelism inside a segment is not",
    "seeded search samples schedules and fault sequences; a clean batch is evidence, not proof",
]

PROPS = {
    "C21": dict(
        harness="c21", pkg="mfs", test="TestVerifC21", yield_pkgs=["mfs"], level="exploration",
        quick=dict(runs=16 * 1500, budget=60), thorough=dict(runs=16 * 40000, budget=1200),
        rule="one case = rapid-drawn timers (short/long), 1-2 updater tasks (unique values, reverts to the last published value, sleeps), 0-2 WaitPub tasks with deadlines, optional Close task, publish failure/slowness schedule, and a scheduling tape; distinct = distinct event-log fingerprint; non-trivial = at least one context switch, time-advance decision or injected fault happened in the run",
        real=["mfs.Republisher (run loop, Update, WaitPub, Close) with inserted yields", "Go timers/select on the synctest fake clock"],
        stub=["publish function (records, parks, fails or sleeps per plan)"],
        assumptions=COMMON_ASSUMPTIONS + ["values of concurrent (overlapping) Update calls are unordered: either may be the one finally published"],
    ),
    "C01": dict(
        harness="c01", pkg="blockstore", test="TestVerifC01", yield_pkgs=["blockstore"], level="exploration",
        quick=dict(runs=16 * 2500, budget=90), thorough=dict(runs=16 * 50000, budget=1200),
        rule="one case = options (WriteThrough, NoPrefix, identity store), a history of <=20 (quick) / <=40 (thorough) ops over 9 keys (empty block, CIDv0/v1-raw/v1-dag-pb aliases, blake2b, identity CIDs), a datastore fault plan (op errors before effect, enumeration error at position k, consumer-side context cancel after k keys) and a scheduling tape for the enumeration goroutine vs. its consumer; distinct = distinct event-log fingerprint; non-trivial = at least one context switch or injected fault",
        real=["blockstore.NewBlockstore (+WriteThrough/NoPrefix), NewIdStore, dshelp key mapping, namespace wrapper, AllKeysChan goroutine"],
        stub=["datastore (simds: snapshot enumeration, per-entry scheduling points, injected errors)"],
        assumptions=COMMON_ASSUMPTIONS + ["an injected datastore error happens before the operation takes effect", "blocks are honest (bytes determined by the multihash), so 'last stored bytes' is unambiguous"],
    ),
    "C02": dict(
        harness="c02", pkg="blockstore", test="TestVerifC02", yield_pkgs=["blockstore"], level="exploration",
        quick=dict(runs=16 * 2500, budget=90), thorough=dict(runs=16 * 60000, budget=1500),
        rule="one case = cache configuration (two-queue size 1..64 and/or Bloom 1..512 bytes, 1..7 hashes, WriteThrough), pre-populated keys, 1-4 client tasks with <=8 (quick) / <=16 (thorough) ops over <=6 multihashes (CID aliases), datastore fault plan (op errors, enumeration error at position k, build-context cancel), scheduling tape; distinct = distinct event-log fingerprint; non-trivial = at least one context switch or injected fault",
        real=["blockstore.CachedBlockstore: tqcache + bloomcache (initial build goroutine, Rebuild, Wait)", "default blockstore + namespace wrapper", "hashicorp 2Q cache, ipfs/bbloom"],
        stub=["datastore (simds: snapshot enumeration, per-entry scheduling points, injected errors)"],
        assumptions=COMMON_ASSUMPTIONS + ["datastore enumeration is a point-in-time snapshot (the documented assumption of Rebuild)", "an injected datastore error happens before the operation takes effect, so a failed write is a no-op in the model", "linearizability is decided by porcupine per multihash; an Unknown (timeout) result is counted, never reported"],
    ),
}
