"""Per-property check table used by /verif/check."""

COMMON_ASSUMPTIONS = [
    "go1.26.8 with a build-time patched runtime (seeded select/map/rand, durable mutex waits, no sysmon preemption); every patched choice is one the stock runtime may make",
    "one P: all orderings of segments between yield points are reachable, true parallelism inside a segment is not",
    "seeded search samples schedules and fault sequences; a clean batch is evidence, not proof",
]

PROPS = {
    "C21": dict(
        harness="c21", pkg="mfs", test="TestVerifC21", yield_pkgs=["mfs"], level="exploration",
        quick=dict(runs=16 * 1500, budget=60), thorough=dict(runs=16 * 40000, budget=1200),
        rule="one case = rapid-drawn timers (short/long), 1-2 updater tasks (unique values, reverts to the last published value, sleeps), 0-2 WaitPub tasks with deadlines, optional Close task, publish failure/slowness schedule, and a scheduling tape; distinct = distinct event-log fingerprint; non-trivial = at least one context switch, time-advance decision or injected fault happened in the run",
        real=["mfs.Republisher (run loop, Update, WaitPub, Close) with inserted yields", "Go timers/select on the synctest fake clock"],
        stub=["publish function (records, parks, fails or sleeps per plan)"],
        assumptions=COMMON_ASSUMPTIONS + ["values of concurrent (overlapping) Update calls are unordered: either may be the one finally published"],
    ),
    "C01": dict(
        harness="c01", pkg="blockstore", test="TestVerifC01", yield_pkgs=["blockstore"], level="exploration",
        quick=dict(runs=16 * 2500, budget=90), thorough=dict(runs=16 * 50000, budget=1200),
        rule="one case = options (WriteThrough, NoPrefix, identity store), a history of <=20 (quick) / <=40 (thorough) ops over 9 keys (empty block, CIDv0/v1-raw/v1-dag-pb aliases, blake2b, identity CIDs), a datastore fault plan (op errors before effect, enumeration error at position k, consumer-side context cancel after k keys) and a scheduling tape for the enumeration goroutine vs. its consumer; distinct = distinct event-log fingerprint; non-trivial = at least one context switch or injected fault",
        real=["blockstore.NewBlockstore (+WriteThrough/NoPrefix), NewIdStore, dshelp key mapping, namespace wrapper, AllKeysChan goroutine"],
        stub=["datastore (simds: snapshot enumeration, per-entry scheduling points, injected errors)"],
        assumptions=COMMON_ASSUMPTIONS + ["an injected datastore error happens before the operation takes effect", "blocks are honest (bytes determined by the multihash), so 'last stored bytes' is unambiguous"],
    ),
    "C22": dict(
        harness="pin", pkg="pinning/pinner/dspinner", test="TestVerifC22", yield_pkgs=["pinning/pinner/dspinner"], level="exploration",
        quick=dict(runs=16 * 400, budget=90), thorough=dict(runs=16 * 6000, budget=1500),
        rule="one case = a DAG (<=10 quick / <=25 thorough dag-pb nodes, shared subtrees, 0-3 blocks missing), a history of <=12 / <=20 ops (Pin recursive/direct with names, PinWithMode incl. invalid modes, Unpin, Update, Flush), fetch-error plan, per-op context cancellation at the k-th seam call, GetMany order, scheduling tape; after every op all pin queries are compared with the model; distinct = distinct event-log fingerprint; non-trivial = at least one context switch or injected fault",
        real=["dspinner.pinner (Pin, PinWithMode, Unpin, Update, Flush, all queries)", "dsindex", "merkledag.FetchGraph / Walk (concurrent)", "dagutils.DiffEnumerate"],
        stub=["datastore (simds)", "DAG service (simdag: seeded delivery order, missing blocks, fetch errors)", "uuid source (seeded)"],
        assumptions=COMMON_ASSUMPTIONS + ["datastore writes do not fail in this check (write failures/crashes are C23's dimension); only fetch errors, missing blocks, cancelled contexts and semantic errors make operations fail", "a query that has to traverse a recursive graph with a missing block may fail; it is then not compared"],
    ),
    "C23": dict(
        harness="pin", pkg="pinning/pinner/dspinner", test="TestVerifC23", yield_pkgs=[], level="fault_enumeration",
        quick=dict(runs=16 * 60, budget=120), thorough=dict(runs=16 * 1500, budget=1500),
        rule="one case = a DAG (<=6 quick / <=10 thorough nodes), a history of <=6 / <=8 pinner ops (autosync on/off); the datastore write log of the history is cut after EVERY write (exhaustive per history), the surviving store is reopened with dspinner.New (dirty-flag recovery), and the recovery is itself cut after each of its writes (nested depth 1); every reopened state is checked by raw key inspection (index<->record agreement) and for lost pins; distinct = distinct event-log fingerprint of the history; non-trivial = at least one crash state was materialised; faults_fired.crash-cut = number of crash states reopened",
        real=["dspinner.New / rebuildIndexes (recovery)", "dspinner Pin/PinWithMode/Unpin/Update/Flush producing the write sequence", "dsindex"],
        stub=["datastore (simds write log, prefix materialisation)", "DAG service (simdag, fault-free here)", "uuid source (seeded)"],
        assumptions=COMMON_ASSUMPTIONS + ["crash model of the property statement: the process stops after an individual datastore write and writes are durable in order; lost or reordered un-synced writes are not modelled", "exhaustive over the write prefixes of each generated history, sampled over histories"],
        exhaustive=True,
    ),
    "C12": dict(
        harness="c12", pkg="ipld/merkledag", test="TestVerifC12", yield_pkgs=["ipld/merkledag"], level="exploration", crashguard=True,
        quick=dict(runs=16 * 1500, budget=90), thorough=dict(runs=16 * 20000, budget=1500),
        rule="one case = a DAG (<=12 quick / <=40 thorough nodes, shared subtrees, missing and failing blocks), an option set (SkipRoot, concurrency 0/1/2/3/8/32, depth limit -1..6 or plain set visit, an ordered list of <=3 handler options from IgnoreErrors/IgnoreMissing/OnMissing/OnError(pass|swallow|replace), WithProvider, GetLinksDirect vs GetLinksWithDAG) and a scheduling tape deciding which parked fetch completes next; distinct = distinct event-log fingerprint; non-trivial = at least one context switch or failing fetch",
        real=["merkledag.Walk / WalkDepth, sequentialWalkDepth, parallelWalkDepth, all WalkOptions", "go-ipld-format GetLinks"],
        stub=["node getter (simdag: every fetch parks, missing blocks, failing fetches)", "recording provider"],
        assumptions=COMMON_ASSUMPTIONS + ["handler options compose in the order given: each handler receives the error left by the handlers added before it", "the FetchGraph-over-blockservice half of the statement is checked under C05's harness, not here"],
    ),
    "C46": dict(
        harness="c46", pkg="peering", test="TestVerifC46", yield_pkgs=["peering"], level="exploration",
        quick=dict(runs=16 * 1200, budget=90), thorough=dict(runs=16 * 15000, budget=1500),
        rule="one case = 1-3 peers, a control task (AddPeer/RemovePeer/Start/Stop/sleep, <=10 quick / <=18 thorough ops), an environment task (connection drops, inbound connections, sleeps), a per-dial outcome plan (fail / ok / ok-then-dropped-at-once), a settle phase of 2..100 maximal back-offs in which every dial fails, and a scheduling tape with time advances up to 10 min; distinct = distinct event-log fingerprint; non-trivial = at least one context switch, time advance or injected fault",
        real=["peering.PeeringService and peerHandler (timers, back-off with jitter, notifee)", "time.AfterFunc timers on the fake clock", "math/rand/v2 jitter through the seeded runtime"],
        stub=["libp2p host/network (records Connect calls and their context state, answers per plan, emits notifications as scheduling points)", "conn manager (null)"],
        assumptions=COMMON_ASSUMPTIONS + ["one Connect call with an already cancelled context per peer and stop/remove event is tolerated (the reconnect whose timer had fired before the stop); any further one means a timer was re-armed after the stop"],
    ),
    "C45": dict(
        harness="c45", pkg="autoconf", test="TestVerifC45", yield_pkgs=[], level="fault_enumeration",
        quick=dict(runs=16 * 12, budget=120), thorough=dict(runs=16 * 150, budget=1500),
        rule="one case = 0-3 earlier complete cache updates followed by one more (config sizes 0-300 quick / 0-1500 thorough padding bytes, gaps 300 ms / 1 s / 2 h so that two updates can fall into the same second, cache size 1-3, ETag / Last-Modified on or off); the file-system operation log of the last update is cut after EVERY operation and at EVERY byte of every write (exhaustive per case), each crash state is materialised and read by a new client; distinct = distinct event-log fingerprint; non-trivial = at least one crash state materialised; faults_fired.crash-cut = crash states read",
        real=["autoconf.Client GetLatest / fetchFromRemote / saveToCache / cleanupOldVersions / GetCached", "package os on a real temporary directory"],
        stub=["HTTP round tripper (serves valid configs, no socket)", "clock (fake)", "file-system seam os.VerifFSHook (logs open/write/rename/remove/sync/close with data; overlay-only patch of package os)"],
        assumptions=COMMON_ASSUMPTIONS + ["crash model: the process stops between two file-system operations or after any byte of a write; completed operations are durable in order (no power-loss reordering)", "exhaustive over the cut points of each generated update, sampled over update histories"],
        exhaustive=True,
    ),
    "C20": dict(
        harness="c20", pkg="mfs", test="TestVerifC20", yield_pkgs=["mfs", "ipld/unixfs/mod"], level="exploration",
        quick=dict(runs=16 * 600, budget=120), thorough=dict(runs=16 * 10000, budget=1500),
        rule="one case = 1-2 shared files (/f0, /d/f1) plus a scratch file, 2-4 tasks with <=6 quick / <=12 thorough ops each (write = open-for-write, truncate, write a unique payload, optional Flush, Close; read = open, read all, close; Mode, ModTime, SetMode, SetModTime, Size, ListNames, FlushPath(/), File.Flush, Mv of the scratch file), republisher on/off, scheduling tape; distinct = distinct event-log fingerprint; non-trivial = at least one context switch",
        real=["mfs Root/Directory/File/fileDescriptor with real sync.RWMutex semantics (writer preference)", "unixfs/mod DagModifier", "unixfs io directories and DagReader", "mfs Republisher (when enabled)"],
        stub=["DAG service (simdag: every Get/Add parks)", "publish function"],
        assumptions=COMMON_ASSUMPTIONS + ["workload rule: a task holds at most one open descriptor and calls only descriptor methods while it holds one, so the harness cannot deadlock itself", "a deadlock is reported when client tasks are unfinished, nothing is runnable and no timer is pending within the horizon (stuck stacks are in the replay file)"],
    ),
    "C02": dict(
        harness="c02", pkg="blockstore", test="TestVerifC02", yield_pkgs=["blockstore"], level="exploration",
        quick=dict(runs=16 * 2500, budget=90), thorough=dict(runs=16 * 60000, budget=1500),
        rule="one case = cache configuration (two-queue size 1..64 and/or Bloom 1..512 bytes, 1..7 hashes, WriteThrough), pre-populated keys, 1-4 client tasks with <=8 (quick) / <=16 (thorough) ops over <=6 multihashes (CID aliases), datastore fault plan (op errors, enumeration error at position k, build-context cancel), scheduling tape; distinct = distinct event-log fingerprint; non-trivial = at least one context switch or injected fault",
        real=["blockstore.CachedBlockstore: tqcache + bloomcache (initial build goroutine, Rebuild, Wait)", "default blockstore + namespace wrapper", "hashicorp 2Q cache, ipfs/bbloom"],
        stub=["datastore (simds: snapshot enumeration, per-entry scheduling points, injected errors)"],
        assumptions=COMMON_ASSUMPTIONS + ["datastore enumeration is a point-in-time snapshot (the documented assumption of Rebuild)", "an injected datastore error happens before the operation takes effect, so a failed write is a no-op in the model", "linearizability is decided by porcupine per multihash; an Unknown (timeout) result is counted, never reported"],
    ),
}
