"""Per-property check table used by /verif/check."""

COMMON_ASSUMPTIONS = [
    "go1.26.8 with a build-time patched runtime (seeded select/map/rand, durable mutex waits, no sysmon preemption); every patched choice is one the stock runtime may make",
    "one P: all orderings of segments between yield points are reachable, true parallelism inside a segment is not",
    "seeded search samples schedules and fault sequences; a clean batch is evidence, not proof",
]

PROPS = {
    "C21": dict(
        harness="c21", pkg="mfs", test="TestVerifC21", yield_pkgs=["mfs"], level="exploration",
        quick=dict(runs=16 * 1500, budget=60), thorough=dict(runs=16 * 40000, budget=1200),
        rule="one case = rapid-drawn timers (short/long), 1-2 updater tasks (unique values, reverts to the last published value, sleeps), 0-2 WaitPub tasks with deadlines, optional Close task, publish failure/slowness schedule, and a scheduling tape; distinct = distinct event-log fingerprint; non-trivial = at least one context switch, time-advance decision or injected fault happened in the run",
        real=["mfs.Republisher (run loop, Update, WaitPub, Close) with inserted yields", "Go timers/select on the synctest fake clock"],
        stub=["publish function (records, parks, fails or sleeps per plan)"],
        assumptions=COMMON_ASSUMPTIONS + ["values of concurrent (overlapping) Update calls are unordered: either may be the one finally published"],
    ),
}
