// yieldgen splices `verifsim.Yield("pkg/file.go:line"); ` in front of every
// statement whose own expressions contain a lock acquisition, a channel
// operation, a select, a go statement or an atomic access. It works on the text
// of the file (nothing is re-printed), so line numbers and comments are
// unchanged. Output: instrumented copies in -out plus a JSON map
// {original path: copy path} on stdout.
//
// usage: yieldgen -repo /repo -out DIR pkgdir [pkgdir...]
package main

import (
	"encoding/json"
	"flag"
	"fmt"
	"go/ast"
	"go/parser"
	"go/token"
	"os"
	"path/filepath"
	"sort"
	"strings"
)

var methods = map[string]bool{
	"Lock": true, "RLock": true, "Wait": true, "Do": true,
	"Store": true, "Load": true, "CompareAndSwap": true, "Swap": true,
	"Signal": true, "Broadcast": true, "TryLock": true,
}

const importPath = "github.com/ipfs/boxo/internal/verifsim"

// interesting reports whether n (a statement's own expression tree) contains a
// synchronisation operation. It does not descend into nested statement lists or
// function literals; those are visited on their own.
func interesting(n ast.Node) bool {
	found := false
	ast.Inspect(n, func(x ast.Node) bool {
		if found || x == nil {
			return false
		}
		switch v := x.(type) {
		case *ast.BlockStmt, *ast.FuncLit, *ast.CaseClause, *ast.CommClause:
			return false
		case *ast.SendStmt:
			found = true
		case *ast.UnaryExpr:
			if v.Op == token.ARROW {
				found = true
			}
		case *ast.SelectStmt, *ast.GoStmt:
			found = true
		case *ast.CallExpr:
			if sel, ok := v.Fun.(*ast.SelectorExpr); ok && methods[sel.Sel.Name] {
				found = true
			}
		}
		return !found
	})
	return found
}

func ownInteresting(s ast.Stmt) bool {
	switch v := s.(type) {
	case *ast.LabeledStmt:
		return ownInteresting(v.Stmt)
	case *ast.SelectStmt, *ast.GoStmt, *ast.SendStmt:
		return true
	case *ast.BlockStmt:
		return false
	case *ast.IfStmt:
		return (v.Init != nil && interesting(v.Init)) || interesting(v.Cond)
	case *ast.ForStmt:
		return (v.Init != nil && interesting(v.Init)) || (v.Cond != nil && interesting(v.Cond))
	case *ast.RangeStmt:
		return interesting(v.X)
	case *ast.SwitchStmt:
		return (v.Init != nil && interesting(v.Init)) || (v.Tag != nil && interesting(v.Tag))
	case *ast.TypeSwitchStmt:
		return (v.Init != nil && interesting(v.Init)) || interesting(v.Assign)
	case *ast.DeferStmt:
		// `defer x.Unlock()` is not a sync point; `defer func(){...}()` bodies are visited separately.
		if _, ok := v.Call.Fun.(*ast.FuncLit); ok {
			return false
		}
		for _, a := range v.Call.Args {
			if interesting(a) {
				return true
			}
		}
		return false
	default:
		return interesting(s)
	}
}

type site struct {
	off  int
	line int
}

func instrument(fset *token.FileSet, path, rel string) ([]byte, int, []string, error) {
	src, err := os.ReadFile(path)
	if err != nil {
		return nil, 0, nil, err
	}
	f, err := parser.ParseFile(fset, path, src, parser.ParseComments)
	if err != nil {
		return nil, 0, nil, err
	}
	var sites []site
	visitList := func(list []ast.Stmt) {
		for _, s := range list {
			if ownInteresting(s) {
				p := fset.Position(s.Pos())
				sites = append(sites, site{p.Offset, p.Line})
			}
		}
	}
	var notes []string
	ast.Inspect(f, func(n ast.Node) bool {
		switch v := n.(type) {
		case *ast.FuncDecl:
			if v.Name.Name == "init" && v.Recv == nil {
				return false
			}
		case *ast.BlockStmt:
			visitList(v.List)
		case *ast.CaseClause:
			visitList(v.Body)
		case *ast.CommClause:
			visitList(v.Body)
		case *ast.CallExpr:
			if sel, ok := v.Fun.(*ast.SelectorExpr); ok && sel.Sel.Name == "Range" {
				notes = append(notes, fmt.Sprintf("%s:%d: .Range( call (iteration order may be address dependent)", rel, fset.Position(v.Pos()).Line))
			}
		}
		return true
	})
	if len(sites) == 0 {
		return nil, 0, notes, nil
	}
	sort.Slice(sites, func(i, j int) bool { return sites[i].off > sites[j].off })
	out := src
	for _, s := range sites {
		ins := fmt.Sprintf("verifsim.Yield(%q); ", fmt.Sprintf("%s:%d", rel, s.line))
		out = append(out[:s.off:s.off], append([]byte(ins), out[s.off:]...)...)
	}
	// splice the import onto the package line
	pkgEnd := fset.Position(f.Name.End()).Offset
	imp := fmt.Sprintf("; import verifsim %q", importPath)
	out = append(out[:pkgEnd:pkgEnd], append([]byte(imp), out[pkgEnd:]...)...)
	return out, len(sites), notes, nil
}

func main() {
	repo := flag.String("repo", "/repo", "repository root")
	outDir := flag.String("out", "", "output directory for instrumented copies")
	flag.Parse()
	if *outDir == "" || flag.NArg() == 0 {
		fmt.Fprintln(os.Stderr, "usage: yieldgen -repo R -out DIR pkgdir...")
		os.Exit(2)
	}
	overlay := map[string]string{}
	total := 0
	var allNotes []string
	for _, pkg := range flag.Args() {
		dir := filepath.Join(*repo, pkg)
		ents, err := os.ReadDir(dir)
		if err != nil {
			fmt.Fprintln(os.Stderr, "yieldgen:", err)
			os.Exit(2)
		}
		for _, e := range ents {
			name := e.Name()
			if e.IsDir() || !strings.HasSuffix(name, ".go") || strings.HasSuffix(name, "_test.go") {
				continue
			}
			fset := token.NewFileSet()
			rel := filepath.Join(pkg, name)
			out, n, notes, err := instrument(fset, filepath.Join(dir, name), rel)
			allNotes = append(allNotes, notes...)
			if err != nil {
				fmt.Fprintln(os.Stderr, "yieldgen:", err)
				os.Exit(2)
			}
			if n == 0 {
				continue
			}
			dst := filepath.Join(*outDir, rel)
			os.MkdirAll(filepath.Dir(dst), 0o755)
			if err := os.WriteFile(dst, out, 0o644); err != nil {
				fmt.Fprintln(os.Stderr, "yieldgen:", err)
				os.Exit(2)
			}
			overlay[filepath.Join(dir, name)] = dst
			total += n
		}
	}
	json.NewEncoder(os.Stdout).Encode(map[string]any{"replace": overlay, "sites": total, "notes": allNotes})
}
