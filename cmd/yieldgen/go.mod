module verif/yieldgen

go 1.26
