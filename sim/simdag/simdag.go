// Package simdag is the simulated DAG service seam: an in-memory
// ipld.DAGService whose fetches are scheduling points, whose GetMany delivers
// nodes one per scheduling decision in a seeded order, and which injects fetch
// errors per plan. Blocks that were never added are reported as not found.
package simdag

import (
	"context"
	"errors"
	"fmt"

	"github.com/ipfs/boxo/internal/verifsim"
	cid "github.com/ipfs/go-cid"
	ipld "github.com/ipfs/go-ipld-format"
)

// ErrInjected is the injected fetch error.
var ErrInjected = errors.New("simdag: injected fetch error")

// Fault makes the Nth (1-based) call of op ("get", "add", "remove") fail.
type Fault struct {
	Op  string `json:"op"`
	Nth int    `json:"nth"`
}

// DAG is the simulated DAG service.
type DAG struct {
	S      *verifsim.Sim
	Nodes  map[string]ipld.Node
	Faults []Fault
	counts map[string]int
	Quiet  bool
	// Gets records the CIDs fetched (in order), for oracles about what was requested.
	Gets []cid.Cid
	// FailKeys lists CIDs (KeyString) whose fetch always fails with ErrInjected.
	FailKeys map[string]bool
	// Pre, when set, is called at every operation before the context check.
	Pre func(op string)
	// Names gives stable short names to CIDs for the event log.
	Names map[string]string
}

var _ ipld.DAGService = (*DAG)(nil)

// New returns an empty simulated DAG service.
func New(s *verifsim.Sim, faults []Fault) *DAG {
	return &DAG{S: s, Nodes: map[string]ipld.Node{}, Faults: faults, counts: map[string]int{}, Names: map[string]string{}}
}

func (d *DAG) name(c cid.Cid) string {
	if n, ok := d.Names[c.KeyString()]; ok {
		return n
	}
	s := c.String()
	if len(s) > 10 {
		s = s[len(s)-8:]
	}
	return s
}

func (d *DAG) point(ctx context.Context, op string, c cid.Cid) error {
	if d.S != nil && !d.Quiet {
		d.S.Yield("dag." + op)
	}
	d.counts[op]++
	n := d.counts[op]
	if d.Pre != nil {
		d.Pre(op)
	}
	if ctx != nil {
		if err := ctx.Err(); err != nil {
			return err
		}
	}
	for _, f := range d.Faults {
		if f.Op == op && f.Nth == n {
			if d.S != nil {
				d.S.Fault("dag-" + op + "-error")
			}
			return ErrInjected
		}
	}
	if d.S != nil && !d.Quiet {
		d.S.Logf("dag.%s %s", op, d.name(c))
	}
	return nil
}

// Has reports whether the node is stored (no scheduling point).
func (d *DAG) Has(c cid.Cid) bool {
	_, ok := d.Nodes[c.KeyString()]
	return ok
}

// Put stores a node without a scheduling point or fault (harness set-up).
func (d *DAG) Put(n ipld.Node) { d.Nodes[n.Cid().KeyString()] = n.Copy() }

func (d *DAG) Get(ctx context.Context, c cid.Cid) (ipld.Node, error) {
	if err := d.point(ctx, "get", c); err != nil {
		return nil, err
	}
	d.Gets = append(d.Gets, c)
	if d.FailKeys[c.KeyString()] {
		if d.S != nil {
			d.S.Fault("dag-get-node-error")
		}
		return nil, ErrInjected
	}
	n, ok := d.Nodes[c.KeyString()]
	if !ok {
		return nil, ipld.ErrNotFound{Cid: c}
	}
	// like a real DAG service (which decodes a block), every Get yields a node
	// object of its own: callers such as the DagModifier mutate what they get
	return n.Copy(), nil
}

func (d *DAG) GetMany(ctx context.Context, cids []cid.Cid) <-chan *ipld.NodeOption {
	out := make(chan *ipld.NodeOption, len(cids))
	order := append([]cid.Cid(nil), cids...)
	if d.S != nil && d.S.Buggify("getmany-reverse") {
		for i, j := 0, len(order)-1; i < j; i, j = i+1, j-1 {
			order[i], order[j] = order[j], order[i]
		}
	}
	go func() {
		defer close(out)
		seen := map[string]bool{}
		for _, c := range order {
			if seen[c.KeyString()] {
				continue
			}
			seen[c.KeyString()] = true
			n, err := d.Get(ctx, c)
			if err != nil {
				if ipld.IsNotFound(err) {
					continue // like the real dagService: missing nodes are simply not delivered
				}
				select {
				case out <- &ipld.NodeOption{Err: err}:
				case <-ctx.Done():
				}
				return
			}
			select {
			case out <- &ipld.NodeOption{Node: n}:
			case <-ctx.Done():
				return
			}
		}
	}()
	return out
}

func (d *DAG) Add(ctx context.Context, n ipld.Node) error {
	if err := d.point(ctx, "add", n.Cid()); err != nil {
		return err
	}
	d.Nodes[n.Cid().KeyString()] = n.Copy()
	return nil
}

func (d *DAG) AddMany(ctx context.Context, ns []ipld.Node) error {
	for _, n := range ns {
		if err := d.Add(ctx, n); err != nil {
			return err
		}
	}
	return nil
}

func (d *DAG) Remove(ctx context.Context, c cid.Cid) error {
	if err := d.point(ctx, "remove", c); err != nil {
		return err
	}
	delete(d.Nodes, c.KeyString())
	return nil
}

func (d *DAG) RemoveMany(ctx context.Context, cs []cid.Cid) error {
	for _, c := range cs {
		if err := d.Remove(ctx, c); err != nil {
			return err
		}
	}
	return nil
}

// String describes the store (debugging).
func (d *DAG) String() string { return fmt.Sprintf("simdag(%d nodes)", len(d.Nodes)) }
