// Package verifsim is the deterministic-simulation kernel used by the checks in
// /verif. It is never part of a normal boxo build: it reaches the compiler only
// through `go test -overlay`, as the overlay-only package
// github.com/ipfs/boxo/internal/verifsim (see /verif/DESIGN.md §3, §4).
//
// One simulated run = one testing/synctest bubble on one P. Every goroutine of
// the run (client tasks, boxo's own goroutines, the simulated environment) lives
// inside the bubble. Goroutines park at yield points; the scheduler (the bubble's
// root goroutine) waits for quiescence, then lets exactly one parked goroutine
// continue, or advances the fake clock, as dictated by the decision tape.
package verifsim

import (
	"fmt"
	"hash/fnv"
	"os"
	"runtime"
	"runtime/debug"
	"sort"
	"strings"
	"sync"
	"sync/atomic"
	"testing"
	"testing/synctest"
	"time"
)

// Config holds the scheduler-level part of a case. It is JSON-serialisable and
// is stored verbatim in replay files.
type Config struct {
	Seed      uint64   `json:"seed"`       // seeds the runtime's select/map/rand streams
	Tape      []byte   `json:"tape"`       // scheduling decisions; exhausted => 0
	Stay      int      `json:"stay"`       // tape entry < Stay means "no context switch"
	TimeSteps []int64  `json:"time_steps"` // optional "advance time" candidates (ns)
	MaxSteps  int      `json:"max_steps"`  // step cap (never a violation by itself)
	HorizonNS int64    `json:"horizon_ns"` // how far the clock may jump while nothing is parked
	Buggify   []string `json:"buggify,omitempty"`
}

// Violation describes a property violation found in one run.
type Violation struct {
	Class string `json:"class"` // stable violation class (used for shrinking and known-finding matching)
	Msg   string `json:"msg"`
}

// Result is what one simulated run produced.
type Result struct {
	Violation   *Violation
	Fingerprint uint64
	Steps       int
	Switches    int // decisions that picked something other than "continue current"
	TimeAdv     int
	SimTime     time.Duration
	Faults      map[string]int
	Probes      map[string]int
	Deadlock    bool
	Capped      bool
	Leak        string // non-empty: goroutines were still blocked when the bubble ended
	Log         []string
	Panic       string
}

type waiter struct {
	label string
	gid   int
	arr   uint64
	ch    chan struct{}
}

// Sim is the per-run simulator state.
type Sim struct {
	cfg Config
	T   *testing.T

	mu       sync.Mutex
	parked   []*waiter
	arrivals uint64
	gids     map[uint64]int
	cur      int
	tasks    int
	draining atomic.Bool
	wake     chan struct{}
	pos      int
	start    time.Time
	draws0   uint64
	rootG    uint64
	stall    time.Duration

	trace bool
	res   *Result
	h     interface {
		Write([]byte) (int, error)
		Sum64() uint64
	}
	seq     uint64
	frozen  bool // a violation was recorded: later events stay out of the fingerprint
	buggify map[string]bool
	onStep  func()
}

var active atomic.Pointer[Sim]

var initOnce sync.Once

func procInit() {
	initOnce.Do(func() {
		runtime.GOMAXPROCS(1)
		debug.SetGCPercent(-1)
		runtime.GC()
		runtime.MemProfileRate = 0
	})
}

// Active returns the running simulation, or nil.
func Active() *Sim { return active.Load() }

// Yield is a scheduling point. Outside a simulation, outside a bubble, or in
// drain mode it is a no-op.
func Yield(label string) {
	s := active.Load()
	if s == nil || s.draining.Load() || !runtime.VerifInBubble() {
		return
	}
	s.park(label)
}

// Yield parks the calling goroutine until the scheduler picks it.
func (s *Sim) Yield(label string) {
	if s.draining.Load() {
		return
	}
	s.park(label)
}

func (s *Sim) gidOf(g uint64) int {
	id, ok := s.gids[g]
	if !ok {
		id = len(s.gids) + 1
		s.gids[g] = id
	}
	return id
}

func (s *Sim) park(label string) {
	g := runtime.VerifGoid()
	if g == s.rootG {
		return // the scheduler's own goroutine (harness set-up / shutdown code) never parks
	}
	w := &waiter{label: label, ch: make(chan struct{})}
	s.mu.Lock()
	w.gid = s.gidOf(g)
	s.arrivals++
	w.arr = s.arrivals
	s.parked = append(s.parked, w)
	s.mu.Unlock()
	select {
	case s.wake <- struct{}{}:
	default:
	}
	<-w.ch
}

// Go starts a client task. It begins parked.
func (s *Sim) Go(name string, fn func()) {
	s.mu.Lock()
	s.tasks++
	s.mu.Unlock()
	go func() {
		defer func() {
			if r := recover(); r != nil {
				s.Failf("panic", "task %s panicked: %v\n%s", name, r, trimStack(debug.Stack()))
			}
			s.mu.Lock()
			s.tasks--
			s.mu.Unlock()
			s.Logf("done %s", name)
			select {
			case s.wake <- struct{}{}:
			default:
			}
		}()
		s.Yield("start:" + name)
		fn()
	}()
}

// GoBG starts a background goroutine in the bubble that is not a client task
// (the run does not wait for it).
func (s *Sim) GoBG(name string, fn func()) {
	go func() {
		defer func() {
			if r := recover(); r != nil {
				s.Failf("panic", "bg %s panicked: %v\n%s", name, r, trimStack(debug.Stack()))
			}
		}()
		s.Yield("start:" + name)
		fn()
	}()
}

func trimStack(b []byte) string {
	s := string(b)
	if len(s) > 3000 {
		s = s[:3000] + "..."
	}
	return s
}

// Logf appends an event to the run's event log (hash always, text when tracing).
// It draws nothing from any PRNG and reads only the fake clock.
func (s *Sim) Logf(format string, args ...any) {
	s.mu.Lock()
	s.seq++
	line := fmt.Sprintf(format, args...)
	if s.frozen {
		// The reported execution ends with its violation. What the tear-down logs
		// afterwards (every context cancelled at once, consumers noticing in
		// whatever order) is kept in the trace but is not part of the fingerprint.
		if s.trace && len(s.res.Log) < 4000 {
			s.res.Log = append(s.res.Log, fmt.Sprintf("%04d t=%v (tear-down) %s", s.seq, time.Since(s.start), line))
		}
		s.mu.Unlock()
		return
	}
	fmt.Fprintf(s.h, "%d|%s\n", s.seq, line)
	if s.trace && len(s.res.Log) < 4000 {
		if debugDraws {
			line += fmt.Sprintf(" [draws=%d]", runtime.VerifDraws()-s.draws0)
		}
		s.res.Log = append(s.res.Log, fmt.Sprintf("%04d t=%v %s", s.seq, time.Since(s.start), line))
	}
	s.mu.Unlock()
}

var debugDraws = os.Getenv("VERIF_DEBUGDRAWS") != ""

// Seq returns a fresh global event sequence number (for history stamping).
func (s *Sim) Seq() int64 {
	s.mu.Lock()
	s.seq++
	v := s.seq
	s.mu.Unlock()
	return int64(v)
}

// Failf records the first violation of the run.
func (s *Sim) Failf(class, format string, args ...any) {
	msg := fmt.Sprintf(format, args...)
	s.mu.Lock()
	if s.res.Violation == nil {
		s.res.Violation = &Violation{Class: class, Msg: msg}
	}
	first := !s.frozen
	s.mu.Unlock()
	if first {
		s.Logf("VIOLATION %s", class)
		s.mu.Lock()
		s.frozen = true
		s.mu.Unlock()
	}
}

// Failed reports whether a violation was recorded.
func (s *Sim) Failed() bool {
	s.mu.Lock()
	defer s.mu.Unlock()
	return s.res.Violation != nil
}

// Fault counts an injected fault that actually fired.
func (s *Sim) Fault(kind string) {
	s.mu.Lock()
	s.res.Faults[kind]++
	s.mu.Unlock()
	s.Logf("fault %s", kind)
}

// Probe counts a rare-branch probe.
func (s *Sim) Probe(name string) {
	s.mu.Lock()
	s.res.Probes[name]++
	s.mu.Unlock()
}

// Buggify reports whether the cooperative fault point is enabled in this run.
func (s *Sim) Buggify(name string) bool { return s.buggify[name] }

// Now returns elapsed simulated time.
func (s *Sim) Now() time.Duration { return time.Since(s.start) }

// OnStep registers an invariant hook evaluated by the scheduler after every
// quiescence (before the next decision).
func (s *Sim) OnStep(f func()) { s.onStep = f }

func (s *Sim) next() int {
	if s.pos < len(s.cfg.Tape) {
		v := s.cfg.Tape[s.pos]
		s.pos++
		return int(v)
	}
	s.pos++
	return 0
}

func (s *Sim) candidates() []*waiter {
	s.mu.Lock()
	c := append([]*waiter(nil), s.parked...)
	cur := s.cur
	s.mu.Unlock()
	sort.SliceStable(c, func(i, j int) bool {
		ci, cj := c[i].gid == cur, c[j].gid == cur
		if ci != cj {
			return ci
		}
		return c[i].arr < c[j].arr
	})
	return c
}

func (s *Sim) release(w *waiter) {
	s.mu.Lock()
	for i, p := range s.parked {
		if p == w {
			s.parked = append(s.parked[:i], s.parked[i+1:]...)
			break
		}
	}
	s.cur = w.gid
	s.mu.Unlock()
	close(w.ch)
}

func (s *Sim) tasksLeft() int {
	s.mu.Lock()
	defer s.mu.Unlock()
	return s.tasks
}

// Loop schedules until all client tasks have finished, the step cap is hit, or
// nothing can make progress (deadlock). It returns true if all tasks finished.
func (s *Sim) Loop() bool {
	return s.loop(func() bool { return s.tasksLeft() == 0 })
}

// LoopUntil schedules until done() holds at a quiescent point.
func (s *Sim) LoopUntil(done func() bool) bool { return s.loop(done) }

func (s *Sim) loop(done func() bool) bool {
	for {
		synctest.Wait()
		if s.onStep != nil {
			s.onStep()
		}
		if done() {
			return true
		}
		if s.res.Steps >= s.cfg.MaxSteps {
			s.res.Capped = true
			s.Logf("step cap")
			return false
		}
		cands := s.candidates()
		if len(cands) == 0 {
			if !s.idleWait() {
				if done() {
					return true
				}
				s.res.Deadlock = true
				s.Logf("deadlock")
				return false
			}
			continue
		}
		s.res.Steps++
		e := s.next()
		idx := 0
		if e >= s.cfg.Stay {
			idx = (e - s.cfg.Stay) % (len(cands) + len(s.cfg.TimeSteps))
		}
		if idx >= len(cands) {
			d := time.Duration(s.cfg.TimeSteps[idx-len(cands)])
			s.res.TimeAdv++
			s.stall += d
			s.Logf("advance %v", d)
			time.Sleep(d)
			continue
		}
		w := cands[idx]
		if idx != 0 || w.gid != s.cur {
			if len(cands) > 1 {
				s.res.Switches++
			}
		}
		s.Logf("run g%d %s", w.gid, w.label)
		s.release(w)
	}
}

// idleWait blocks the scheduler until some goroutine parks or the horizon
// elapses with nothing happening. It returns false in the latter case.
func (s *Sim) idleWait() bool {
	select {
	case <-s.wake:
	default:
	}
	s.mu.Lock()
	n := len(s.parked)
	s.mu.Unlock()
	if n > 0 {
		return true
	}
	hz := time.Duration(s.cfg.HorizonNS)
	if hz <= 0 {
		hz = time.Hour
	}
	tm := time.NewTimer(hz)
	defer tm.Stop()
	before := s.tasksLeft()
	select {
	case <-s.wake:
		return true
	case <-tm.C:
		s.mu.Lock()
		n := len(s.parked)
		s.mu.Unlock()
		return n > 0 || s.tasksLeft() != before
	}
}

// Settle advances fake time by d in total, scheduling anything that parks in the
// meantime with "oldest first" decisions (fault-free settle phase).
func (s *Sim) Settle(d time.Duration) {
	deadline := time.Now().Add(d)
	for guard := 0; guard < 200000; guard++ {
		synctest.Wait()
		if s.onStep != nil {
			s.onStep()
		}
		cands := s.candidates()
		if len(cands) > 0 {
			w := cands[0]
			s.Logf("settle-run g%d %s", w.gid, w.label)
			s.release(w)
			continue
		}
		rem := time.Until(deadline)
		if rem <= 0 {
			return
		}
		select {
		case <-s.wake:
		default:
		}
		tm := time.NewTimer(rem)
		select {
		case <-s.wake:
		case <-tm.C:
		}
		tm.Stop()
	}
}

// Drain switches to drain mode: yields become no-ops and every parked goroutine
// is released. The harness then cancels contexts / closes components.
func (s *Sim) Drain() {
	s.draining.Store(true)
	s.mu.Lock()
	p := s.parked
	s.parked = nil
	s.mu.Unlock()
	for _, w := range p {
		close(w.ch)
	}
	synctest.Wait()
}

// StuckStacks returns the stacks of bubble goroutines (for deadlock reports).
func StuckStacks() string {
	// the caller is the scheduler, inside the bubble of interest
	self := make([]byte, 256)
	self = self[:runtime.Stack(self, false)]
	tag := "synctest bubble"
	if i := strings.Index(string(self), "synctest bubble "); i >= 0 {
		if j := strings.IndexByte(string(self[i:]), ']'); j > 0 {
			tag = string(self[i : i+j+1]) // "synctest bubble N]"
		}
	}
	buf := make([]byte, 1<<20)
	n := runtime.Stack(buf, true)
	var out []string
	for _, g := range strings.Split(string(buf[:n]), "\n\n") {
		if strings.Contains(g, tag) && !strings.Contains(g, "verifsim.StuckStacks") && !strings.Contains(g, "[synctest.Run") {
			if len(g) > 1500 {
				g = g[:1500] + "\n\t..."
			}
			out = append(out, g)
		}
	}
	s := strings.Join(out, "\n\n")
	if len(s) > 12000 {
		s = s[:12000] + "\n..."
	}
	return s
}

var runCount int

// gcEvery is the number of runs between explicit collections.
var gcEvery = 32

var noPools = os.Getenv("VERIF_NOPOOLS") != ""

// Run executes body inside a fresh bubble under cfg and returns the result.
// body runs on the bubble's root goroutine and is expected to build the system,
// start tasks with s.Go, call s.Loop, evaluate oracles, call s.Drain and shut
// the system down.
func Run(t *testing.T, cfg Config, trace bool, body func(s *Sim)) *Result {
	procInit()
	if cfg.MaxSteps <= 0 {
		cfg.MaxSteps = 2000
	}
	res := &Result{Faults: map[string]int{}, Probes: map[string]int{}}
	s := &Sim{cfg: cfg, T: t, gids: map[uint64]int{}, wake: make(chan struct{}, 1), trace: trace, res: res, h: fnv.New64a(), buggify: map[string]bool{}}
	for _, b := range cfg.Buggify {
		s.buggify[b] = true
	}
	// The collector never runs concurrently with a bubble: automatic GC is off for
	// the whole process (procInit) and a full blocking collection is done between
	// runs. A concurrent mark phase would park allocating goroutines in mark
	// assists and reorder runnable bubble goroutines.
	runCount++
	if runCount%gcEvery == 0 {
		runtime.GC()
	}
	// sync.Pool is live inside the bubble and every pool is emptied before the run, so
	// that what a Get finds depends on this run only: an object recycled across calls
	// (a classic optimisation, and a classic way of carrying state from one request
	// into another) behaves as it would in production, and a run still does not
	// depend on what earlier runs of the process left behind. VERIF_NOPOOLS=1 goes
	// back to "nothing is pooled inside a bubble".
	if !noPools {
		runtime.VerifPools(true)
		defer runtime.VerifPools(false)
		runtime.VerifClearPools()
	}
	runtime.VerifSeed(cfg.Seed*2 + 1)
	defer runtime.VerifSeed(0)
	func() {
		defer func() {
			if r := recover(); r != nil {
				msg := fmt.Sprint(r)
				if strings.Contains(msg, "deadlock:") {
					res.Leak = msg + "\n" + leakedStacks()
				} else {
					res.Panic = msg + "\n" + trimStack(debug.Stack())
				}
			}
			active.Store(nil)
		}()
		synctest.VerifRun(func() {
			s.wake = make(chan struct{}, 1)
			s.start = time.Now()
			s.draws0 = runtime.VerifDraws()
			runtime.VerifTraceDraws(os.Getenv("VERIF_DRAWWIN") != "" && trace)
			s.rootG = runtime.VerifGoid()
			s.cur = s.gidOf(s.rootG)
			active.Store(s)
			defer func() {
				if r := recover(); r != nil {
					res.Panic = fmt.Sprint(r) + "\n" + trimStack(debug.Stack())
				}
				res.SimTime = time.Since(s.start)
				s.draining.Store(true)
			}()
			body(s)
		})
	}()
	res.Fingerprint = s.h.Sum64()
	if w := os.Getenv("VERIF_DRAWWIN"); w != "" && trace {
		// debugging aid: symbolised call stacks of the draws lo..hi of this run
		var lo, hi uint64
		fmt.Sscanf(w, "%d:%d", &lo, &hi)
		for i := lo; i <= hi; i++ {
			pcs := runtime.VerifDrawStack(s.draws0 + i)
			line := fmt.Sprintf("DRAW %d:", i)
			fr := runtime.CallersFrames(pcs)
			for {
				f, more := fr.Next()
				if f.Function != "" {
					line += " " + f.Function
				}
				if !more {
					break
				}
			}
			res.Log = append(res.Log, line)
		}
	}
	return res
}

func leakedStacks() string {
	buf := make([]byte, 1<<20)
	n := runtime.Stack(buf, true)
	var out []string
	for _, g := range strings.Split(string(buf[:n]), "\n\n") {
		if strings.Contains(g, "(durable), synctest bubble") || (strings.Contains(g, "synctest bubble") && strings.Contains(g, "sync.")) {
			if len(g) > 1200 {
				g = g[:1200] + "\n\t..."
			}
			out = append(out, g)
		}
	}
	s := strings.Join(out, "\n\n")
	if len(s) > 8000 {
		s = s[:8000] + "\n..."
	}
	return s
}

// DeadlockSeen reports whether the scheduler loop ended because nothing could
// make progress.
func (s *Sim) DeadlockSeen() bool { return s.res.Deadlock }

// FaultCount returns the number of injected faults that have fired so far.
func (s *Sim) FaultCount() int {
	s.mu.Lock()
	defer s.mu.Unlock()
	n := 0
	for _, v := range s.res.Faults {
		n += v
	}
	return n
}

// StallTime returns the total simulated time injected so far by "advance time
// while tasks are parked" decisions (whole-system stalls).
func (s *Sim) StallTime() time.Duration { return s.stall }

// ProbeN adds n to a probe counter.
func (s *Sim) ProbeN(name string, n int) {
	s.mu.Lock()
	s.res.Probes[name] += n
	s.mu.Unlock()
}

// FaultN counts n injected faults of one kind (e.g. enumerated crash cuts)
// without adding n lines to the event log.
func (s *Sim) FaultN(kind string, n int) {
	if n <= 0 {
		return
	}
	s.mu.Lock()
	s.res.Faults[kind] += n
	s.mu.Unlock()
	s.Logf("faults %s x%d", kind, n)
}

// Capped reports whether the step cap was hit.
func (s *Sim) Capped() bool { return s.res.Capped }

// TimeAdvCount returns how many "advance time while tasks are parked" decisions
// (i.e. whole-system stalls) the scheduler has taken so far.
func (s *Sim) TimeAdvCount() int { return s.res.TimeAdv }
