// Package simds is the simulated datastore seam: an in-memory ds.Batching whose
// every operation is a scheduling point, that records a write log (for crash
// cuts), and that injects errors per plan. Enumeration is a point-in-time
// snapshot taken when Query is released; each NextSync is a scheduling point and
// can fail.
package simds

import (
	"context"
	"errors"
	"fmt"
	"sort"
	"strings"

	"github.com/ipfs/boxo/internal/verifsim"
	ds "github.com/ipfs/go-datastore"
	dsq "github.com/ipfs/go-datastore/query"
)

// ErrInjected is returned by operations failed by the fault plan.
var ErrInjected = errors.New("simds: injected datastore error")

// Fault makes the Nth (1-based) call of the given op kind fail before taking
// effect. Op kinds: get has getsize put delete query query-next batch commit sync.
type Fault struct {
	Op  string `json:"op"`
	Nth int    `json:"nth"`
}

// Write is one entry of the write log.
type Write struct {
	Kind string // "put", "delete", "sync", "commit-begin", "commit-end"
	Key  string
	Val  []byte
}

// DS is the simulated datastore.
type DS struct {
	S      *verifsim.Sim
	Name   string
	Data   map[string][]byte
	Log    []Write
	Faults []Fault
	counts map[string]int
	// Trace, when set, receives every op (kind, key) at the moment it takes effect.
	Trace func(kind, key string)
	// IgnoreCtx makes the store ignore context cancellation, like the in-memory
	// and LevelDB datastores do.
	IgnoreCtx bool
	// Pre, when set, is called at every operation after it was scheduled and
	// before the context check / fault / effect (used to cancel contexts at the
	// k-th seam call).
	Pre func(op, key string)
	// CompleteEnumerations counts queries whose iteration reached the end of the snapshot.
	CompleteEnumerations int
	// Quiet disables yielding (used when re-opening crash states outside a schedule).
	Quiet bool
}

var _ ds.Batching = (*DS)(nil)

// New returns an empty simulated datastore.
func New(s *verifsim.Sim, name string, faults []Fault) *DS {
	return &DS{S: s, Name: name, Data: map[string][]byte{}, Faults: faults, counts: map[string]int{}}
}

// FromLog materialises the state reached by the first n writes of log.
func FromLog(s *verifsim.Sim, name string, log []Write, n int) *DS {
	d := New(s, name, nil)
	for _, w := range log[:n] {
		switch w.Kind {
		case "put":
			d.Data[w.Key] = append([]byte(nil), w.Val...)
		case "delete":
			delete(d.Data, w.Key)
		}
	}
	return d
}

// Clone copies the current contents into a fresh datastore (no log, no faults).
func (d *DS) Clone(name string) *DS {
	c := New(d.S, name, nil)
	for k, v := range d.Data {
		c.Data[k] = append([]byte(nil), v...)
	}
	return c
}

func (d *DS) point(ctx context.Context, op string, key string) error {
	if d.S != nil && !d.Quiet {
		d.S.Yield("ds." + op)
	}
	d.counts[op]++
	n := d.counts[op]
	if d.Pre != nil {
		d.Pre(op, key)
	}
	if ctx != nil && !d.IgnoreCtx {
		if err := ctx.Err(); err != nil {
			return err
		}
	}
	for _, f := range d.Faults {
		if f.Op == op && f.Nth == n {
			if d.S != nil {
				d.S.Fault("ds-" + op + "-error")
			}
			return ErrInjected
		}
	}
	if d.S != nil && !d.Quiet {
		d.S.Logf("%s.%s %s", d.Name, op, shortKey(key))
	}
	if d.Trace != nil {
		d.Trace(op, key)
	}
	return nil
}

// post is a second scheduling point after the operation took effect and before
// its result reaches the caller ("the reply is slow"). It is enabled per run by
// the buggify option "ds-post-yield", so that the window between a store
// operation and what the caller does next with its result is reachable.
func (d *DS) post(op string) {
	if d.S != nil && !d.Quiet && d.S.Buggify("ds-post-yield") {
		d.S.Yield("ds." + op + ".ret")
	}
}

func shortKey(k string) string {
	if len(k) > 28 {
		return k[:10] + ".." + k[len(k)-14:]
	}
	return k
}

func (d *DS) Get(ctx context.Context, key ds.Key) ([]byte, error) {
	defer d.post("get")
	if err := d.point(ctx, "get", key.String()); err != nil {
		return nil, err
	}
	v, ok := d.Data[key.String()]
	if !ok {
		return nil, ds.ErrNotFound
	}
	return append([]byte(nil), v...), nil
}

func (d *DS) Has(ctx context.Context, key ds.Key) (bool, error) {
	defer d.post("has")
	if err := d.point(ctx, "has", key.String()); err != nil {
		return false, err
	}
	_, ok := d.Data[key.String()]
	return ok, nil
}

func (d *DS) GetSize(ctx context.Context, key ds.Key) (int, error) {
	defer d.post("getsize")
	if err := d.point(ctx, "getsize", key.String()); err != nil {
		return -1, err
	}
	v, ok := d.Data[key.String()]
	if !ok {
		return -1, ds.ErrNotFound
	}
	return len(v), nil
}

func (d *DS) Put(ctx context.Context, key ds.Key, value []byte) error {
	defer d.post("put")
	if err := d.point(ctx, "put", key.String()); err != nil {
		return err
	}
	d.apply(Write{Kind: "put", Key: key.String(), Val: append([]byte(nil), value...)})
	return nil
}

func (d *DS) Delete(ctx context.Context, key ds.Key) error {
	defer d.post("delete")
	if err := d.point(ctx, "delete", key.String()); err != nil {
		return err
	}
	d.apply(Write{Kind: "delete", Key: key.String()})
	return nil
}

func (d *DS) apply(w Write) {
	switch w.Kind {
	case "put":
		d.Data[w.Key] = w.Val
	case "delete":
		delete(d.Data, w.Key)
	}
	d.Log = append(d.Log, w)
}

func (d *DS) Sync(ctx context.Context, prefix ds.Key) error {
	if err := d.point(ctx, "sync", prefix.String()); err != nil {
		return err
	}
	d.Log = append(d.Log, Write{Kind: "sync", Key: prefix.String()})
	return nil
}

func (d *DS) Close() error { return nil }

// Keys returns the sorted keys currently stored.
func (d *DS) Keys() []string {
	ks := make([]string, 0, len(d.Data))
	for k := range d.Data {
		ks = append(ks, k)
	}
	sort.Strings(ks)
	return ks
}

func (d *DS) Query(ctx context.Context, q dsq.Query) (dsq.Results, error) {
	if err := d.point(ctx, "query", q.Prefix); err != nil {
		return nil, err
	}
	// point-in-time snapshot
	prefix := q.Prefix
	if prefix != "" && prefix != "/" && !strings.HasSuffix(prefix, "/") {
		prefix = ds.NewKey(prefix).String() + "/"
	}
	if prefix == "/" {
		prefix = ""
	}
	var entries []dsq.Entry
	for _, k := range d.Keys() {
		if prefix != "" && !strings.HasPrefix(k, prefix) {
			continue
		}
		e := dsq.Entry{Key: k, Size: len(d.Data[k])}
		if !q.KeysOnly {
			e.Value = append([]byte(nil), d.Data[k]...)
		}
		entries = append(entries, e)
	}
	if d.S != nil && d.S.Buggify("query-reverse") {
		for i, j := 0, len(entries)-1; i < j; i, j = i+1, j-1 {
			entries[i], entries[j] = entries[j], entries[i]
		}
	}
	i := 0
	closed := false
	base := q
	base.Prefix = ""
	res := dsq.ResultsFromIterator(q, dsq.Iterator{
		Next: func() (dsq.Result, bool) {
			if closed {
				return dsq.Result{}, false
			}
			if err := d.point(ctx, "query-next", fmt.Sprint(i)); err != nil {
				closed = true
				if !errors.Is(err, ErrInjected) && d.S != nil && d.S.Buggify("query-silent-cancel") {
					// channel-based Results implementations (dsq.ResultsWithContext, as used
					// by LevelDB/flatfs style datastores) just stop producing when the
					// query context is cancelled: the consumer sees the end of the
					// enumeration, not an error
					d.S.Fault("enumeration-silently-truncated-by-cancel")
					return dsq.Result{}, false
				}
				if errors.Is(err, ErrInjected) && d.S != nil {
					d.S.Probe(fmt.Sprintf("enumeration cut at %d of %d", i, len(entries)))
				}
				return dsq.Result{Error: err}, true
			}
			if i >= len(entries) {
				d.CompleteEnumerations++
				return dsq.Result{}, false
			}
			e := entries[i]
			i++
			return dsq.Result{Entry: e}, true
		},
		Close: func() error { closed = true; return nil },
	})
	// filters / orders / offset / limit are applied naively on top of the snapshot
	nq := q
	nq.Prefix = ""
	if len(nq.Filters) > 0 || len(nq.Orders) > 0 || nq.Limit > 0 || nq.Offset > 0 {
		return dsq.NaiveQueryApply(nq, res), nil
	}
	return res, nil
}

type batch struct {
	d   *DS
	ops []Write
}

func (d *DS) Batch(ctx context.Context) (ds.Batch, error) {
	if err := d.point(ctx, "batch", ""); err != nil {
		return nil, err
	}
	return &batch{d: d}, nil
}

func (b *batch) Put(ctx context.Context, key ds.Key, value []byte) error {
	b.ops = append(b.ops, Write{Kind: "put", Key: key.String(), Val: append([]byte(nil), value...)})
	return nil
}

func (b *batch) Delete(ctx context.Context, key ds.Key) error {
	b.ops = append(b.ops, Write{Kind: "delete", Key: key.String()})
	return nil
}

func (b *batch) Commit(ctx context.Context) error {
	defer b.d.post("commit")
	if err := b.d.point(ctx, "commit", fmt.Sprint(len(b.ops))); err != nil {
		return err
	}
	b.d.Log = append(b.d.Log, Write{Kind: "commit-begin"})
	for _, w := range b.ops {
		b.d.apply(w)
	}
	b.d.Log = append(b.d.Log, Write{Kind: "commit-end"})
	// go-datastore's basic batch (behind MapDatastore, MutexWrap, the namespace
	// wrapper) keeps its operations after Commit and applies them again when the
	// same batch is committed a second time; nothing in the Batch contract says a
	// committed batch is empty. Half of the runs get that behaviour.
	if b.d.S == nil || !b.d.S.Buggify("batch-keeps-ops") {
		b.ops = nil
	}
	return nil
}
