// Package simnet is the simulated bitswap message network seam
// (network.BitSwapNetwork). Every node of a run shares one Net. Every send and
// every delivery is a scheduling point; latency comes from a per-run generator
// and is spent on the fake clock. Links are ordered streams (FIFO per directed
// link, like a libp2p stream) and unordered across links. Faults: send errors per
// plan, disconnects that lose the messages in flight, stalled receivers, and
// nodes that only speak the old protocol (no HAVE / DONT_HAVE support).
// Messages travel through the real wire encoding (ToNetV1 / FromNet).
package simnet

import (
	"bytes"
	"context"
	"errors"
	"fmt"
	"strings"
	"time"

	bsmsg "github.com/ipfs/boxo/bitswap/message"
	pb "github.com/ipfs/boxo/bitswap/message/pb"
	bsnet "github.com/ipfs/boxo/bitswap/network"
	"github.com/ipfs/boxo/internal/verifsim"
	"github.com/libp2p/go-libp2p/core/host"
	"github.com/libp2p/go-libp2p/core/peer"
	"github.com/libp2p/go-libp2p/p2p/protocol/ping"
	mh "github.com/multiformats/go-multihash"
)

// ErrInjected is returned by sends failed by the plan.
var ErrInjected = errors.New("simnet: injected send error")

// ErrNotConnected is returned by sends over a link that is down.
var ErrNotConnected = errors.New("simnet: not connected")

// PeerID returns the deterministic peer ID of node i.
func PeerID(i int) peer.ID {
	h, _ := mh.Sum([]byte(fmt.Sprintf("simnet-node-%02d", i)), mh.IDENTITY, -1)
	return peer.ID(h)
}

type packet struct {
	from   peer.ID
	data   []byte
	at     time.Duration // arrival, simulated time since the start of the run
	epoch  int
	blocks int
}

type link struct {
	queue  []*packet
	active bool
	lastAt time.Duration
}

// Sent records one message accepted by the network.
type Sent struct {
	From, To peer.ID
	Msg      bsmsg.BitSwapMessage
	Seq      int64
}

// Net is the shared simulated network.
type Net struct {
	S     *verifsim.Sim
	nodes map[peer.ID]*Node
	order []*Node
	conns map[[2]peer.ID]int // pair (sorted) -> connection epoch
	epoch int
	links map[[2]peer.ID]*link // directed
	x     uint32

	// MinLatency / Jitter: latency of one message is MinLatency + [0, Jitter].
	MinLatency time.Duration
	Jitter     time.Duration
	// FailSends lists the 1-based ordinals (over all sends of the run) that fail.
	FailSends   []int
	sends       int
	broken      []*brokenLink
	events      []func()
	dispatching bool

	// Delivered counts messages handed to receivers; Lost counts messages dropped
	// because their connection went down while they were in flight.
	Delivered, Lost int
	// Log, when set, records every message accepted for delivery.
	Log []Sent
	// KeepLog enables Log.
	KeepLog bool
	// Down stops all delivery goroutines at the end of a run.
	down bool
}

// New returns an empty network. seed drives the latency generator.
func New(s *verifsim.Sim, seed int, minLatency, jitter time.Duration) *Net {
	return &Net{S: s, nodes: map[peer.ID]*Node{}, conns: map[[2]peer.ID]int{}, links: map[[2]peer.ID]*link{},
		x: uint32(seed*2654435761 + 99991), MinLatency: minLatency, Jitter: jitter}
}

func (n *Net) rnd() uint32 {
	n.x ^= n.x << 13
	n.x ^= n.x >> 17
	n.x ^= n.x << 5
	return n.x
}

func pair(a, b peer.ID) [2]peer.ID {
	if a < b {
		return [2]peer.ID{a, b}
	}
	return [2]peer.ID{b, a}
}

// Node is one node's view of the network.
type Node struct {
	net          *Net
	id           peer.ID
	Index        int
	receivers    []bsnet.Receiver
	supportsHave bool
	stallUntil   time.Duration
	stats        bsnet.Stats
}

var _ bsnet.BitSwapNetwork = (*Node)(nil)

// Adapter creates the network endpoint of node i.
func (n *Net) Adapter(i int, supportsHave bool) *Node {
	nd := &Node{net: n, id: PeerID(i), Index: i, supportsHave: supportsHave}
	n.nodes[nd.id] = nd
	n.order = append(n.order, nd)
	return nd
}

// Connected reports whether a and b are connected.
func (n *Net) Connected(a, b peer.ID) bool { return n.conns[pair(a, b)] != 0 }

// ConnectIdx connects nodes i and j (no-op if connected).
func (n *Net) ConnectIdx(i, j int) {
	n.order[i].Connect(context.Background(), peer.AddrInfo{ID: n.order[j].id})
}

// DisconnectIdx takes the link between nodes i and j down; messages in flight on
// it are lost.
func (n *Net) DisconnectIdx(i, j int) {
	n.order[i].DisconnectFrom(context.Background(), n.order[j].id)
}

// Stall makes node i receive nothing for d of simulated time.
func (n *Net) Stall(i int, d time.Duration) {
	nd := n.order[i]
	if t := n.S.Now() + d; t > nd.stallUntil {
		nd.stallUntil = t
	}
	n.S.Fault("net-receiver-stalled")
}

// StopFaults ends fault injection: no further send fails, and the disconnects
// still pending for earlier failed sends happen now (the harness heals the links
// next).
func (n *Net) StopFaults() {
	n.FailSends = nil
	for _, br := range n.broken {
		n.breakLink(br)
	}
}

type brokenLink struct {
	src  *Node
	to   peer.ID
	done bool
}

func (n *Net) breakLink(br *brokenLink) {
	if !br.done {
		br.done = true
		br.src.DisconnectFrom(context.Background(), br.to)
	}
}

// Shutdown stops delivery.
func (n *Net) Shutdown() { n.down = true }

// InFlight returns the number of queued messages.
func (n *Net) InFlight() int {
	c := 0
	for _, l := range n.links {
		c += len(l.queue)
	}
	return c
}

func (n *Net) send(from, to peer.ID, m bsmsg.BitSwapMessage) error {
	return n.sendOn(context.Background(), from, to, m, 0)
}

// sendOn sends over the connection with the given epoch (0: whatever connection
// is up now).
func (n *Net) sendOn(ctx context.Context, from, to peer.ID, m bsmsg.BitSwapMessage, epoch int) error {
	n.S.Yield("net.send")
	n.sends++
	if err := ctx.Err(); err != nil {
		return err
	}
	ep := n.conns[pair(from, to)]
	if ep == 0 {
		n.S.Fault("net-send-not-connected")
		return ErrNotConnected
	}
	if epoch != 0 && ep != epoch {
		n.S.Fault("net-send-on-stale-stream")
		return ErrStreamReset
	}
	for _, k := range n.FailSends {
		if k == n.sends {
			n.S.Fault("net-send-error")
			// a send fails because the connection broke: as in the libp2p network
			// layer, the error is followed by a disconnect event for that link
			// (messagequeue relies on it: "the networking layer will emit a
			// Disconnect event and the MessageQueue will get shut down")
			br := &brokenLink{src: n.nodes[from], to: to}
			n.broken = append(n.broken, br)
			n.S.GoBG("net.broken-link", func() { n.breakLink(br) })
			return ErrInjected
		}
	}
	var buf bytes.Buffer
	if err := m.ToNetV1(&buf); err != nil {
		return err
	}
	lat := n.MinLatency
	if n.Jitter > 0 {
		lat += time.Duration(n.rnd()) % (n.Jitter + 1)
	}
	key := [2]peer.ID{from, to}
	l := n.links[key]
	if l == nil {
		l = &link{}
		n.links[key] = l
	}
	at := n.S.Now() + lat
	if at < l.lastAt {
		at = l.lastAt // a stream delivers in order
	}
	l.lastAt = at
	l.queue = append(l.queue, &packet{from: from, data: buf.Bytes(), at: at, epoch: ep, blocks: len(m.Blocks())})
	if n.KeepLog {
		n.Log = append(n.Log, Sent{From: from, To: to, Msg: m.Clone(), Seq: n.S.Seq()})
	}
	n.S.Logf("net.send %d->%d %s lat=%v", n.nodes[from].Index, n.nodes[to].Index, Describe(m), lat)
	if !l.active {
		l.active = true
		dst := n.nodes[to]
		n.S.GoBG(fmt.Sprintf("net.link.%d-%d", n.nodes[from].Index, dst.Index), func() { n.pump(key, l, dst) })
	}
	return nil
}

// Describe renders a message compactly and deterministically (CIDs by their last
// six characters; c=cancel, b=want-block, h=want-have, +d = send DONT_HAVE).
func Describe(m bsmsg.BitSwapMessage) string {
	var sb strings.Builder
	tail := func(s string) string {
		if len(s) > 6 {
			return s[len(s)-6:]
		}
		return s
	}
	sb.WriteString("wl[")
	if m.Full() {
		sb.WriteString("FULL ")
	}
	for i, e := range m.Wantlist() {
		if i > 0 {
			sb.WriteByte(' ')
		}
		switch {
		case e.Cancel:
			sb.WriteString("c:")
		case e.WantType == pb.Message_Wantlist_Block:
			sb.WriteString("b:")
		default:
			sb.WriteString("h:")
		}
		sb.WriteString(tail(e.Cid.String()))
		if e.SendDontHave {
			sb.WriteString("+d")
		}
	}
	sb.WriteString("] blk[")
	for i, b := range m.Blocks() {
		if i > 0 {
			sb.WriteByte(' ')
		}
		sb.WriteString(tail(b.Cid().String()))
	}
	sb.WriteString("] pres[")
	for i, p := range m.BlockPresences() {
		if i > 0 {
			sb.WriteByte(' ')
		}
		if p.Type == pb.Message_Have {
			sb.WriteString("H:")
		} else {
			sb.WriteString("D:")
		}
		sb.WriteString(tail(p.Cid.String()))
	}
	sb.WriteString("]")
	return sb.String()
}

func (n *Net) pump(key [2]peer.ID, l *link, dst *Node) {
	for {
		if len(l.queue) == 0 || n.down {
			l.active = false
			return
		}
		p := l.queue[0]
		wake := p.at
		if dst.stallUntil > wake {
			wake = dst.stallUntil
		}
		if d := wake - n.S.Now(); d > 0 {
			time.Sleep(d)
			continue // re-evaluate (a stall may have been added meanwhile)
		}
		n.S.Yield("net.deliver")
		if n.down {
			l.active = false
			return
		}
		if dst.stallUntil > n.S.Now() {
			continue
		}
		l.queue = l.queue[1:]
		if n.conns[pair(key[0], key[1])] != p.epoch {
			n.Lost++
			n.S.Fault("net-in-flight-lost-on-disconnect")
			continue
		}
		m, _, err := bsmsg.FromNet(bytes.NewReader(p.data))
		if err != nil {
			n.S.Failf("wire-decode", "a message produced by ToNetV1 could not be decoded by FromNet: %v", err)
			continue
		}
		n.Delivered++
		dst.stats.MessagesRecvd++
		n.S.Logf("net.deliver %d->%d", n.nodes[key[0]].Index, dst.Index)
		for _, r := range dst.receivers {
			r.ReceiveMessage(context.Background(), p.from, m)
		}
	}
}

// ---- network.BitSwapNetwork ----

func (nd *Node) Self() peer.ID { return nd.id }

func (nd *Node) SendMessage(ctx context.Context, to peer.ID, m bsmsg.BitSwapMessage) error {
	if err := nd.net.send(nd.id, to, m); err != nil {
		return err
	}
	nd.stats.MessagesSent++
	return nil
}

func (nd *Node) Start(r ...bsnet.Receiver) { nd.receivers = r }
func (nd *Node) Stop()                     {}

func (nd *Node) Connect(_ context.Context, p peer.AddrInfo) error {
	other, ok := nd.net.nodes[p.ID]
	if !ok {
		return errors.New("simnet: no such peer")
	}
	if other == nd {
		return nil
	}
	k := pair(nd.id, p.ID)
	if nd.net.conns[k] != 0 {
		return nil
	}
	nd.net.epoch++
	nd.net.conns[k] = nd.net.epoch
	nd.net.S.Logf("net.connect %d-%d", nd.Index, other.Index)
	me, peerID := nd.id, p.ID
	nd.net.notify(func() {
		for _, r := range other.receivers {
			r.PeerConnected(me)
		}
		for _, r := range nd.receivers {
			r.PeerConnected(peerID)
		}
	})
	return nil
}

// notify delivers connection events to the receivers one after the other, in the
// order in which the connections changed, from one dispatcher goroutine — the
// guarantee bsnet's connect-event manager gives bitswap. (Delivering them from
// whichever goroutine called Connect / DisconnectFrom let a "connected" overtake
// the "disconnected" that preceded it.)
func (n *Net) notify(ev func()) {
	n.events = append(n.events, ev)
	if n.dispatching {
		return
	}
	n.dispatching = true
	n.S.GoBG("net.events", func() {
		for len(n.events) > 0 {
			ev := n.events[0]
			n.events = n.events[1:]
			ev()
		}
		n.dispatching = false
	})
}

func (nd *Node) DisconnectFrom(_ context.Context, p peer.ID) error {
	other, ok := nd.net.nodes[p]
	if !ok {
		return errors.New("simnet: no such peer")
	}
	k := pair(nd.id, p)
	if nd.net.conns[k] == 0 {
		return nil
	}
	delete(nd.net.conns, k)
	nd.net.S.Logf("net.disconnect %d-%d", nd.Index, other.Index)
	nd.net.S.Fault("net-disconnect")
	me := nd.id
	nd.net.notify(func() {
		for _, r := range other.receivers {
			r.PeerDisconnected(me)
		}
		for _, r := range nd.receivers {
			r.PeerDisconnected(p)
		}
	})
	return nil
}

func (nd *Node) IsConnectedToPeer(_ context.Context, p peer.ID) bool {
	return nd.net.Connected(nd.id, p)
}

// sender is a message stream: it belongs to the connection that was up when it
// was opened and is reset with it, like a libp2p stream.
type sender struct {
	nd    *Node
	to    peer.ID
	epoch int
}

// ErrStreamReset is returned by a sender whose connection is gone.
var ErrStreamReset = errors.New("simnet: stream reset (its connection is gone)")

func (s *sender) SendMsg(ctx context.Context, m bsmsg.BitSwapMessage) error {
	if err := s.nd.net.sendOn(ctx, s.nd.id, s.to, m, s.epoch); err != nil {
		return err
	}
	s.nd.stats.MessagesSent++
	return nil
}
func (s *sender) Reset() error { return nil }
func (s *sender) SupportsHave() bool {
	if o := s.nd.net.nodes[s.to]; o != nil {
		return o.supportsHave
	}
	return true
}

func (nd *Node) NewMessageSender(ctx context.Context, p peer.ID, _ *bsnet.MessageSenderOpts) (bsnet.MessageSender, error) {
	nd.net.S.Yield("net.newsender")
	if !nd.net.Connected(nd.id, p) {
		return nil, ErrNotConnected
	}
	return &sender{nd: nd, to: p, epoch: nd.net.conns[pair(nd.id, p)]}, nil
}

func (nd *Node) Host() host.Host { return nil }
func (nd *Node) Stats() bsnet.Stats {
	return nd.stats
}

func (nd *Node) Ping(ctx context.Context, p peer.ID) ping.Result {
	return ping.Result{RTT: nd.Latency(p)}
}
func (nd *Node) Latency(peer.ID) time.Duration { return nd.net.MinLatency + nd.net.Jitter/2 }

func (nd *Node) TagPeer(peer.ID, string, int)   {}
func (nd *Node) UntagPeer(peer.ID, string)      {}
func (nd *Node) Protect(peer.ID, string)        {}
func (nd *Node) Unprotect(peer.ID, string) bool { return false }
