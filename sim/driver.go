package verifsim

import (
	"encoding/binary"
	"encoding/json"
	"flag"
	"fmt"
	"os"
	"reflect"
	"regexp"
	"runtime"
	"sort"
	"strconv"
	"strings"
	"testing"
	"time"

	"pgregory.net/rapid"
)

// Harness describes one property's simulated check.
type Harness struct {
	Property string
	Name     string
	// Gen draws a complete case (configuration, plan, decision tape) from rapid.
	// The returned value must be a pointer to a JSON-serialisable struct.
	Gen func(t *rapid.T, tier string) any
	// New returns an empty case value for JSON decoding on replay.
	New func() any
	// Run executes one case in a fresh bubble.
	Run func(t *testing.T, c any, trace bool) *Result
	// Sample abstracts a case for the evidence file (optional).
	Sample func(c any) any
}

// ReplayFile is the on-disk format of a failure.
type ReplayFile struct {
	Property    string          `json:"property"`
	Harness     string          `json:"harness"`
	VerifSeed   uint64          `json:"verif_seed"`
	Worker      int             `json:"worker"`
	RapidSeed   uint64          `json:"rapid_seed"`
	Fingerprint string          `json:"fingerprint"`
	Violation   Violation       `json:"violation"`
	Case        json.RawMessage `json:"case"`
	Log         []string        `json:"log,omitempty"`
}

// WorkerOut is what one worker process reports to the runner.
type WorkerOut struct {
	Property     string         `json:"property"`
	Harness      string         `json:"harness"`
	Worker       int            `json:"worker"`
	Runs         int            `json:"runs"`
	Steps        int64          `json:"steps"`
	Switches     int64          `json:"switches"`
	TimeAdv      int64          `json:"time_advances"`
	SimTimeNS    int64          `json:"sim_time_ns"`
	Nontrivial   int            `json:"nontrivial_runs"`
	Faults       map[string]int `json:"faults"`
	Probes       map[string]int `json:"probes"`
	Deadlocks    int            `json:"deadlocks"`
	Capped       int            `json:"capped"`
	Leaks        int            `json:"leaks"`
	Inconclusive int            `json:"inconclusive"`
	Samples      []any          `json:"samples"`
	Known        map[string]int `json:"known_findings_observed"`
	Replay       string         `json:"replay,omitempty"`
	Violation    *Violation     `json:"violation,omitempty"`
	Trouble      string         `json:"trouble,omitempty"`
	WallS        float64        `json:"wall_s"`
	FPFile       string         `json:"fp_file,omitempty"`
}

// KnownFinding is one entry of /verif/known_findings.json.
type KnownFinding struct {
	Property string `json:"property"`
	Status   string `json:"status"` // "known" or "fixed"
	Class    string `json:"class"`  // violation class
	Match    string `json:"match"`  // regexp on the violation message
	What     string `json:"what"`
	Commit   string `json:"commit,omitempty"`
	re       *regexp.Regexp
}

type captureTB struct {
	failed bool
	msgs   []string
}

type tbAbort struct{}

func (c *captureTB) Helper()                  {}
func (c *captureTB) Name() string             { return "verif" }
func (c *captureTB) Logf(f string, a ...any)  {}
func (c *captureTB) Log(a ...any)             {}
func (c *captureTB) Skipf(f string, a ...any) { panic(tbAbort{}) }
func (c *captureTB) Skip(a ...any)            { panic(tbAbort{}) }
func (c *captureTB) SkipNow()                 { panic(tbAbort{}) }
func (c *captureTB) Errorf(f string, a ...any) {
	c.failed = true
	c.msgs = append(c.msgs, fmt.Sprintf(f, a...))
}
func (c *captureTB) Error(a ...any)            { c.failed = true; c.msgs = append(c.msgs, fmt.Sprint(a...)) }
func (c *captureTB) Fatalf(f string, a ...any) { c.Errorf(f, a...); panic(tbAbort{}) }
func (c *captureTB) Fatal(a ...any)            { c.Error(a...); panic(tbAbort{}) }
func (c *captureTB) FailNow()                  { c.failed = true; panic(tbAbort{}) }
func (c *captureTB) Fail()                     { c.failed = true }
func (c *captureTB) Failed() bool              { return c.failed }

func envInt(name string, def int) int {
	if v := os.Getenv(name); v != "" {
		if n, err := strconv.Atoi(v); err == nil {
			return n
		}
	}
	return def
}

func fnvHash(b []byte) uint64 {
	h := uint64(14695981039346656037)
	for _, c := range b {
		h ^= uint64(c)
		h *= 1099511628211
	}
	return h
}

func splitmix(x uint64) uint64 {
	x += 0x9e3779b97f4a7c15
	z := x
	z = (z ^ (z >> 30)) * 0xbf58476d1ce4e5b9
	z = (z ^ (z >> 27)) * 0x94d049bb133111eb
	return z ^ (z >> 31)
}

func loadKnown(prop string) []*KnownFinding {
	p := os.Getenv("VERIF_KNOWN")
	if p == "" {
		return nil
	}
	b, err := os.ReadFile(p)
	if err != nil {
		return nil
	}
	var doc struct {
		Findings []*KnownFinding `json:"findings"`
	}
	if err := json.Unmarshal(b, &doc); err != nil {
		fmt.Fprintf(os.Stderr, "verifsim: cannot parse %s: %v\n", p, err)
		os.Exit(2)
	}
	var out []*KnownFinding
	for _, k := range doc.Findings {
		if k.Property == prop && k.Status == "known" {
			k.re = regexp.MustCompile(k.Match)
			out = append(out, k)
		}
	}
	return out
}

func matchKnown(ks []*KnownFinding, v *Violation) *KnownFinding {
	for _, k := range ks {
		if k.Class == v.Class && k.re.MatchString(v.Msg) {
			return k
		}
	}
	return nil
}

// Main is the entry point of every harness test function.
//
// Environment: VERIF_MODE=search|replay, VERIF_SEED, VERIF_WORKER, VERIF_RUNS
// (runs for this worker), VERIF_BUDGET_S (wall-clock cap), VERIF_TIER,
// VERIF_OUT (worker result JSON), VERIF_REPLAY (replay file to execute or to
// write), VERIF_FPLOG (write "runindex fingerprint" lines; determinism test),
// VERIF_KNOWN (known findings file).
func Main(t *testing.T, h Harness) {
	procInit()
	mode := os.Getenv("VERIF_MODE")
	if mode == "" {
		mode = "search"
	}
	switch mode {
	case "replay":
		replayMain(t, h)
	default:
		searchMain(t, h)
	}
}

func writeJSON(path string, v any) {
	b, err := json.MarshalIndent(v, "", " ")
	if err != nil {
		fmt.Fprintf(os.Stderr, "verifsim: marshal: %v\n", err)
		os.Exit(2)
	}
	if err := os.WriteFile(path, b, 0o644); err != nil {
		fmt.Fprintf(os.Stderr, "verifsim: write %s: %v\n", path, err)
		os.Exit(2)
	}
}

func resultViolation(r *Result, promisesCompletion bool) *Violation {
	if r.Violation != nil {
		return r.Violation
	}
	if r.Panic != "" {
		return &Violation{Class: "panic", Msg: r.Panic}
	}
	return nil
}

func searchMain(t *testing.T, h Harness) {
	seed := uint64(envInt("VERIF_SEED", 1))
	worker := envInt("VERIF_WORKER", 0)
	runs := envInt("VERIF_RUNS", 200)
	budget := time.Duration(envInt("VERIF_BUDGET_S", 60)) * time.Second
	tier := os.Getenv("VERIF_TIER")
	if tier == "" {
		tier = "quick"
	}
	outPath := os.Getenv("VERIF_OUT")
	replayPath := os.Getenv("VERIF_REPLAY")
	known := loadKnown(h.Property)

	out := &WorkerOut{Property: h.Property, Harness: h.Name, Worker: worker, Faults: map[string]int{}, Probes: map[string]int{}, Known: map[string]int{}}
	fps := map[uint64]struct{}{}
	var fplog *os.File
	if p := os.Getenv("VERIF_FPLOG"); p != "" {
		f, err := os.Create(p)
		if err != nil {
			t.Fatal(err)
		}
		fplog = f
		defer f.Close()
	}
	start := time.Now()

	var firstClass string
	var failCase any
	var failRes *Result
	execs := 0

	prop := func(rt *rapid.T) {
		c := h.Gen(rt, tier)
		trace := execs < 2
		if cg := os.Getenv("VERIF_CRASHGUARD"); cg != "" {
			// the case is on disk before it runs, so that a fatal runtime error
			// (stack exhaustion, concurrent map write) can be attributed to it
			cb, _ := json.Marshal(c)
			rf := ReplayFile{Property: h.Property, Harness: h.Name, VerifSeed: seed, Worker: worker, Fingerprint: "", Case: cb,
				Violation: Violation{Class: "crash", Msg: "the process died while executing this case"}}
			b, _ := json.Marshal(rf)
			os.WriteFile(cg, b, 0o644)
		}
		dump := envInt("VERIF_DUMPRUN", -1) == execs+1
		dbl := os.Getenv("VERIF_DOUBLE")
		full := os.Getenv("VERIF_FULLLOG")
		res := h.Run(t, c, trace || dump || dbl != "" || full != "")
		execs++
		if full != "" {
			// determinism self-test: every run's event log, so that two processes that
			// disagree on a fingerprint can be compared line by line
			if f, err := os.OpenFile(full, os.O_APPEND|os.O_CREATE|os.O_WRONLY, 0o644); err == nil {
				fmt.Fprintf(f, "=== run %d\n%s\n", execs, strings.Join(res.Log, "\n"))
				f.Close()
			}
		}
		if dbl != "" {
			// repeatability self-test: the same case executed again in this process
			// must give the same event log; both logs are kept when it does not
			res2 := h.Run(t, c, true)
			if res2.Fingerprint != res.Fingerprint {
				out.Known["(double) differs"]++
				os.WriteFile(fmt.Sprintf("%s/w%d-r%d.a", dbl, worker, execs), []byte(strings.Join(res.Log, "\n")+"\n"), 0o644)
				os.WriteFile(fmt.Sprintf("%s/w%d-r%d.b", dbl, worker, execs), []byte(strings.Join(res2.Log, "\n")+"\n"), 0o644)
				cb, _ := json.Marshal(c)
				rf := ReplayFile{Property: h.Property, Harness: h.Name, VerifSeed: seed, Worker: worker, Fingerprint: fmt.Sprintf("%016x", res.Fingerprint), Case: cb}
				b, _ := json.Marshal(rf)
				os.WriteFile(fmt.Sprintf("%s/w%d-r%d.json", dbl, worker, execs), b, 0o644)
			}
		}
		if dump {
			os.WriteFile(os.Getenv("VERIF_FPLOG")+".dump", []byte(strings.Join(res.Log, "\n")+"\nLEAK:"+res.Leak+"\nPANIC:"+res.Panic+"\n"), 0o644)
		}
		out.Runs++
		out.Steps += int64(res.Steps)
		out.Switches += int64(res.Switches)
		out.TimeAdv += int64(res.TimeAdv)
		out.SimTimeNS += int64(res.SimTime)
		nfault := 0
		for k, v := range res.Faults {
			out.Faults[k] += v
			nfault += v
		}
		for k, v := range res.Probes {
			out.Probes[k] += v
		}
		if res.Deadlock {
			out.Deadlocks++
		}
		if res.Capped {
			out.Capped++
		}
		if res.Leak != "" {
			out.Leaks++
			if out.Leaks == 1 && os.Getenv("VERIF_DEBUG") != "" {
				fmt.Fprintf(os.Stderr, "first leak:\n%s\n", res.Leak)
			}
		}
		if res.Switches > 0 || nfault > 0 || res.TimeAdv > 0 {
			out.Nontrivial++
			fps[res.Fingerprint] = struct{}{}
		}
		if cd := os.Getenv("VERIF_CASEDIR"); cd != "" && execs%envInt("VERIF_CASEEVERY", 50) == 0 {
			// history-independence self-test: the case and the fingerprint it had in
			// this (long-running) process, to be compared with a fresh-process replay
			cb, _ := json.Marshal(c)
			rf := ReplayFile{Property: h.Property, Harness: h.Name, VerifSeed: seed, Worker: worker, Fingerprint: fmt.Sprintf("%016x", res.Fingerprint), Case: cb}
			b, _ := json.Marshal(rf)
			os.WriteFile(fmt.Sprintf("%s/w%d-r%d.json", cd, worker, execs), b, 0o644)
		}
		if fplog != nil {
			cb, _ := json.Marshal(c)
			fmt.Fprintf(fplog, "%d %016x case=%016x steps=%d\n", execs, res.Fingerprint, fnvHash(cb), res.Steps)
			if f, err := os.OpenFile(os.Getenv("VERIF_FPLOG")+".foreign", os.O_APPEND|os.O_CREATE|os.O_WRONLY, 0o644); err == nil {
				// scheduler events of goroutines outside the bubble seen during runs so far
				// (created, made runnable, preemptions of bubble goroutines): wall-clock
				// dependent, therefore kept out of the compared log
				fmt.Fprintf(f, "%d %v\n", execs, runtime.VerifForeign())
				f.Close()
			}
		}
		if trace && h.Sample != nil && len(out.Samples) < 2 {
			lg := res.Log
			if len(lg) > 40 {
				lg = lg[:40]
			}
			out.Samples = append(out.Samples, map[string]any{"case": h.Sample(c), "event_log_head": lg})
		}
		v := resultViolation(res, false)
		if v == nil {
			return
		}
		if k := matchKnown(known, v); k != nil {
			out.Known[k.What]++
			return
		}
		if firstClass == "" {
			firstClass = v.Class
		}
		if v.Class != firstClass {
			return // a different violation class: not the one being minimised
		}
		if os.Getenv("VERIF_NOSTOP") != "" {
			out.Known["(nostop) "+v.Class]++
			return
		}
		failCase, failRes = c, res
		res.Violation = v
		rt.Fatalf("violation %s", v.Class)
	}

	flag.Set("rapid.nofailfile", "true")
	flag.Set("rapid.shrinktime", os.Getenv("VERIF_SHRINKTIME"))
	if os.Getenv("VERIF_SHRINKTIME") == "" {
		flag.Set("rapid.shrinktime", "45s")
	}
	batch := 0
	var rapidSeed uint64
	for out.Runs < runs && time.Since(start) < budget && failCase == nil {
		n := runs - out.Runs
		if n > 50 {
			n = 50
		}
		rapidSeed = splitmix(seed*1000003+uint64(worker)*7919+uint64(batch)) | 1
		rapidSeed &= (1 << 62) - 1
		batch++
		flag.Set("rapid.seed", strconv.FormatUint(rapidSeed, 10))
		flag.Set("rapid.checks", strconv.Itoa(n))
		tb := &captureTB{}
		func() {
			defer func() {
				if r := recover(); r != nil {
					if _, ok := r.(tbAbort); !ok {
						panic(r)
					}
				}
			}()
			rapid.Check(tb, prop)
		}()
		if tb.failed && failCase == nil {
			out.Trouble = "rapid reported failure without a captured case: " + strings.Join(tb.msgs, "; ")
			break
		}
	}
	out.WallS = time.Since(start).Seconds()

	if failCase != nil {
		// Re-run the minimised case with tracing for the replay file.
		res := h.Run(t, failCase, true)
		v := resultViolation(res, false)
		if v == nil || v.Class != firstClass {
			out.Trouble = fmt.Sprintf("minimised case did not reproduce in-process (class %q)", firstClass)
			v = failRes.Violation
			res = failRes
		}
		cb, _ := json.Marshal(failCase)
		rf := ReplayFile{Property: h.Property, Harness: h.Name, VerifSeed: seed, Worker: worker, RapidSeed: rapidSeed,
			Fingerprint: fmt.Sprintf("%016x", res.Fingerprint), Violation: *v, Case: cb, Log: res.Log}
		if replayPath != "" {
			writeJSON(replayPath, rf)
			out.Replay = replayPath
		}
		out.Violation = v
	}

	if p := os.Getenv("VERIF_FPOUT"); p != "" {
		keys := make([]uint64, 0, len(fps))
		for k := range fps {
			keys = append(keys, k)
		}
		sort.Slice(keys, func(i, j int) bool { return keys[i] < keys[j] })
		buf := make([]byte, 8*len(keys))
		for i, k := range keys {
			binary.LittleEndian.PutUint64(buf[8*i:], k)
		}
		os.WriteFile(p, buf, 0o644)
		out.FPFile = p
	}
	if outPath != "" {
		writeJSON(outPath, out)
	}
}

func replayMain(t *testing.T, h Harness) {
	path := os.Getenv("VERIF_REPLAY")
	b, err := os.ReadFile(path)
	if err != nil {
		fmt.Fprintf(os.Stderr, "replay: %v\n", err)
		os.Exit(2)
	}
	var rf ReplayFile
	if err := json.Unmarshal(b, &rf); err != nil {
		fmt.Fprintf(os.Stderr, "replay: %v\n", err)
		os.Exit(2)
	}
	c := h.New()
	if err := json.Unmarshal(rf.Case, c); err != nil {
		fmt.Fprintf(os.Stderr, "replay: case: %v\n", err)
		os.Exit(2)
	}
	if reflect.ValueOf(c).Kind() != reflect.Ptr {
		fmt.Fprintf(os.Stderr, "replay: New must return a pointer\n")
		os.Exit(2)
	}
	// The case is executed twice and the second execution is reported: the first
	// one warms up lazily initialised process state (type caches, sync.Once
	// initialisers, ...), whose allocations would otherwise consume values of the
	// seeded runtime stream inside the bubble and shift later choices relative to
	// the (warm) worker process that found the failure.
	_ = h.Run(t, c, false)
	for i := 0; i < envInt("VERIF_WARM", 0); i++ {
		r := h.Run(t, c, os.Getenv("VERIF_WARMDUMP") != "")
		fmt.Printf("WARM %d fingerprint=%016x\n", i, r.Fingerprint)
		if d := os.Getenv("VERIF_WARMDUMP"); d != "" {
			os.WriteFile(fmt.Sprintf("%s/warm%d.log", d, i), []byte(strings.Join(r.Log, "\n")+"\n"), 0o644)
		}
	}
	res := h.Run(t, c, true)
	// Process-wide caches that are filled lazily (protobuf message descriptors,
	// type caches) can still make an early execution differ from the steady state
	// a long-running worker is in. Execute until two consecutive executions agree.
	for i := 0; i < 5; i++ {
		again := h.Run(t, c, true)
		same := again.Fingerprint == res.Fingerprint
		res = again
		if same {
			break
		}
	}
	v := resultViolation(res, false)
	fp := fmt.Sprintf("%016x", res.Fingerprint)
	out := map[string]any{"fingerprint": fp, "expected_fingerprint": rf.Fingerprint, "violation": v, "expected_class": rf.Violation.Class}
	if os.Getenv("VERIF_REPLAY_VERBOSE") != "" {
		for _, l := range res.Log {
			fmt.Println(l)
		}
		if res.Leak != "" {
			fmt.Println("LEAK:", res.Leak)
		}
	}
	status := "not-reproduced"
	if v != nil && v.Class == rf.Violation.Class {
		if fp == rf.Fingerprint {
			status = "reproduced"
		} else {
			status = "reproduced-different-fingerprint"
		}
	}
	out["status"] = status
	if v != nil {
		fmt.Printf("REPLAY-VIOLATION class=%s\n%s\n", v.Class, v.Msg)
	}
	fmt.Printf("REPLAY-STATUS %s fingerprint=%s expected=%s\n", status, fp, rf.Fingerprint)
	if p := os.Getenv("VERIF_OUT"); p != "" {
		writeJSON(p, out)
	}
}

// ---- generators shared by harnesses ----

// GenConfig draws the scheduler-level configuration.
func GenConfig(t *rapid.T, maxTape int, maxSteps int, horizon time.Duration, timeSteps []time.Duration) Config {
	cfg := Config{MaxSteps: maxSteps, HorizonNS: int64(horizon)}
	cfg.Seed = rapid.Uint64Range(1, 1<<40).Draw(t, "rtseed")
	cfg.Stay = rapid.SampledFrom([]int{0, 0, 96, 160, 208, 240}).Draw(t, "stay")
	n := rapid.SampledFrom([]int{0, 16, 64, maxTape / 4, maxTape}).Draw(t, "tapelen")
	if n > maxTape {
		n = maxTape
	}
	cfg.Tape = rapid.SliceOfN(rapid.Byte(), n, n).Draw(t, "tape")
	if len(timeSteps) > 0 && rapid.IntRange(0, 3).Draw(t, "timeadv") > 0 {
		for _, d := range timeSteps {
			cfg.TimeSteps = append(cfg.TimeSteps, int64(d))
		}
	}
	return cfg
}
