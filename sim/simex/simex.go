// Package simex is the simulated block exchange seam (exchange.Interface and
// SessionExchange). Every call and every delivery is a scheduling point. Per
// call, a plan decides what is delivered: any subset of the requested blocks in
// any order, duplicates, an early close, an error, and — the malicious profile —
// blocks that were not requested, blocks whose CID the caller's validator would
// reject, and blocks whose bytes do not hash to their CID.
package simex

import (
	"context"
	"errors"
	"fmt"

	"github.com/ipfs/boxo/exchange"
	"github.com/ipfs/boxo/internal/verifsim"
	blocks "github.com/ipfs/go-block-format"
	cid "github.com/ipfs/go-cid"
)

// ErrInjected is returned by calls failed by the plan.
var ErrInjected = errors.New("simex: injected exchange error")

// Emit is one delivery step of a call plan.
type Emit struct {
	// Kind: "ok" (the Idx-th requested block), "dup" (again the Idx-th requested
	// block), "unrequested" (pool block Idx that was not asked for), "badcid" (a
	// block with a CID that validators reject), "corrupt" (the Idx-th requested
	// CID with bytes that do not hash to it), "alias" (the bytes of the Idx-th
	// requested block under a CID with the same multihash but another codec or
	// version, which was not asked for).
	Kind string `json:"k"`
	Idx  int    `json:"i"`
}

// Call is the plan for one GetBlock / GetBlocks call.
type Call struct {
	Emits []Emit `json:"emits"`
	// End: "" or "close" closes the channel after the emissions; "rest" then delivers
	// every requested block not delivered yet (honest completion); "error" makes
	// the call itself fail.
	End string `json:"end"`
}

// Delivery records one block handed to the caller of the exchange.
type Delivery struct {
	Block blocks.Block
	Kind  string
	Seq   int64
}

// Exchange is the simulated exchange.
type Exchange struct {
	S     *verifsim.Sim
	Pool  []blocks.Block // honest blocks the network can provide
	Bad   []blocks.Block // blocks with CIDs a validator rejects
	Plans []Call         // consumed one per call; exhausted => honest, complete
	calls int

	Requests   [][]cid.Cid // every key set asked for, in call order
	Deliveries []Delivery
	Notified   []cid.Cid
	Sessions   int
}

var _ exchange.SessionExchange = (*Exchange)(nil)

// New returns a simulated exchange.
func New(s *verifsim.Sim, pool, bad []blocks.Block, plans []Call) *Exchange {
	return &Exchange{S: s, Pool: pool, Bad: bad, Plans: plans}
}

func (e *Exchange) find(c cid.Cid) blocks.Block {
	for _, b := range e.Pool {
		if b.Cid().Equals(c) {
			return b
		}
	}
	return nil
}

func (e *Exchange) nextPlan() Call {
	i := e.calls
	e.calls++
	if i < len(e.Plans) {
		return e.Plans[i]
	}
	return Call{End: "rest"}
}

// produce builds the block for one emission (nil if it cannot be built).
func (e *Exchange) produce(em Emit, req []cid.Cid) blocks.Block {
	switch em.Kind {
	case "ok", "dup":
		if len(req) == 0 {
			return nil
		}
		return e.find(req[em.Idx%len(req)])
	case "unrequested":
		if len(e.Pool) == 0 {
			return nil
		}
		for k := 0; k < len(e.Pool); k++ {
			b := e.Pool[(em.Idx+k)%len(e.Pool)]
			asked := false
			for _, c := range req {
				if c.Equals(b.Cid()) {
					asked = true
				}
			}
			if !asked {
				return b
			}
		}
		return nil
	case "badcid":
		if len(e.Bad) == 0 {
			return nil
		}
		return e.Bad[em.Idx%len(e.Bad)]
	case "alias":
		if len(req) == 0 {
			return nil
		}
		c := req[em.Idx%len(req)]
		orig := e.find(c)
		if orig == nil {
			return nil
		}
		codec := uint64(cid.DagProtobuf)
		if c.Prefix().Codec == cid.DagProtobuf {
			codec = cid.Raw
		}
		b, err := blocks.NewBlockWithCid(orig.RawData(), cid.NewCidV1(codec, c.Hash()))
		if err != nil {
			return nil
		}
		return b
	case "corrupt":
		if len(req) == 0 {
			return nil
		}
		c := req[em.Idx%len(req)]
		b, err := blocks.NewBlockWithCid([]byte(fmt.Sprintf("corrupt bytes for %s", c)), c)
		if err != nil {
			return nil
		}
		return b
	}
	return nil
}

func (e *Exchange) deliver(b blocks.Block, kind string) {
	e.Deliveries = append(e.Deliveries, Delivery{Block: b, Kind: kind, Seq: e.S.Seq()})
	if kind != "ok" && kind != "dup" && kind != "rest" {
		e.S.Fault("exchange-" + kind)
	}
}

// GetBlock implements exchange.Fetcher.
func (e *Exchange) GetBlock(ctx context.Context, c cid.Cid) (blocks.Block, error) {
	e.Requests = append(e.Requests, []cid.Cid{c})
	plan := e.nextPlan()
	e.S.Logf("ex.GetBlock %s", short(c))
	e.S.Yield("ex.getblock")
	if err := ctx.Err(); err != nil {
		return nil, err
	}
	if plan.End == "error" {
		e.S.Fault("exchange-error")
		return nil, ErrInjected
	}
	for _, em := range plan.Emits {
		if b := e.produce(em, []cid.Cid{c}); b != nil {
			e.deliver(b, em.Kind)
			return b, nil
		}
	}
	b := e.find(c)
	if b == nil {
		return nil, fmt.Errorf("simex: %s not available", c)
	}
	e.deliver(b, "rest")
	return b, nil
}

// GetBlocks implements exchange.Fetcher.
func (e *Exchange) GetBlocks(ctx context.Context, ks []cid.Cid) (<-chan blocks.Block, error) {
	req := append([]cid.Cid(nil), ks...)
	e.Requests = append(e.Requests, req)
	plan := e.nextPlan()
	e.S.Logf("ex.GetBlocks n=%d", len(req))
	e.S.Yield("ex.getblocks")
	if plan.End == "error" {
		e.S.Fault("exchange-error")
		return nil, ErrInjected
	}
	out := make(chan blocks.Block)
	go func() {
		defer close(out)
		sent := map[string]bool{}
		send := func(b blocks.Block, kind string) bool {
			e.S.Yield("ex.deliver")
			e.deliver(b, kind)
			select {
			case out <- b:
				sent[b.Cid().KeyString()] = true
				return true
			case <-ctx.Done():
				return false
			}
		}
		for _, em := range plan.Emits {
			if b := e.produce(em, req); b != nil {
				if !send(b, em.Kind) {
					return
				}
			}
		}
		if plan.End == "rest" {
			for _, c := range req {
				if sent[c.KeyString()] {
					continue
				}
				if b := e.find(c); b != nil {
					if !send(b, "rest") {
						return
					}
				}
			}
		} else {
			e.S.Fault("exchange-early-close")
		}
	}()
	return out, nil
}

// NotifyNewBlocks implements exchange.Interface.
func (e *Exchange) NotifyNewBlocks(ctx context.Context, bs ...blocks.Block) error {
	for _, b := range bs {
		e.Notified = append(e.Notified, b.Cid())
	}
	return nil
}

// Close implements io.Closer.
func (e *Exchange) Close() error { return nil }

// NewSession implements exchange.SessionExchange. Sessions share the plan and the logs.
func (e *Exchange) NewSession(ctx context.Context) exchange.Fetcher {
	e.Sessions++
	return e
}

func short(c cid.Cid) string {
	s := c.String()
	if len(s) > 8 {
		return s[len(s)-8:]
	}
	return s
}
