package provider

// C44 — reproviding announces every allowed key and terminates.
// Real: provider.New(...).Reprovide, NewPrioritizedProvider, NewBufferedProvider,
// go-dsqueue. Simulated: key streams fed by producer goroutines (so that the
// prioritized provider's goroutine and the batching loop interleave), the
// router (ProvideMany / single Provide, may fail, may be not Ready for a while),
// the datastore, the clock, and a counting context that turns a non-terminating
// pass into a deterministic verdict (no wall-clock).

import (
	"context"
	"errors"
	"fmt"
	"sync"
	"testing"
	"time"

	"github.com/ipfs/boxo/internal/verifsim"
	"github.com/ipfs/boxo/internal/verifsim/simds"
	cid "github.com/ipfs/go-cid"
	mh "github.com/multiformats/go-multihash"
	"pgregory.net/rapid"
)

type c44Case struct {
	Cfg          verifsim.Config `json:"cfg"`
	Streams      [][]int         `json:"streams"` // key indices; >= 1000 means a rejected CID (index - 1000)
	Prioritized  bool            `json:"prioritized"`
	Buffered     bool            `json:"buffered"`
	MaxBatch     int             `json:"max_batch"`  // -1: option not given
	Throughput   int             `json:"throughput"` // -1: no callback; otherwise the threshold
	CallbackMore bool            `json:"callback_more"`
	ProvideMany  bool            `json:"provide_many"`
	RouterFail   []int           `json:"router_fail"` // 1-based call numbers that fail
	NotReadyMin  int             `json:"not_ready_minutes"`
	// SecondPass: Reprovide is called a second time on the same system (same key
	// provider function); every pass must announce every allowed key again
	SecondPass bool `json:"second_pass,omitempty"`
}

func c44Gen(t *rapid.T, tier string) any {
	c := &c44Case{}
	maxKeys := 30
	if tier == "thorough" {
		maxKeys = 200
	}
	ns := rapid.IntRange(1, 4).Draw(t, "nstreams")
	keyGen := rapid.Custom(func(t *rapid.T) int {
		if rapid.IntRange(0, 7).Draw(t, "rejected") == 0 {
			return 1000 + rapid.IntRange(0, 2).Draw(t, "bad")
		}
		return rapid.IntRange(0, 24).Draw(t, "key")
	})
	for i := 0; i < ns; i++ {
		c.Streams = append(c.Streams, rapid.SliceOfN(keyGen, 0, maxKeys/ns+1).Draw(t, "stream"))
	}
	c.Prioritized = ns > 1 || rapid.Bool().Draw(t, "prio")
	c.Buffered = rapid.Bool().Draw(t, "buffered")
	c.MaxBatch = rapid.SampledFrom([]int{-1, -1, 0, 1, 2, 3, 7, 50}).Draw(t, "maxbatch")
	c.Throughput = rapid.SampledFrom([]int{-1, -1, -1, 0, 1, 2, 5, 40}).Draw(t, "throughput")
	c.CallbackMore = rapid.Bool().Draw(t, "more")
	c.ProvideMany = rapid.IntRange(0, 3).Draw(t, "many") != 0
	if rapid.IntRange(0, 3).Draw(t, "failing") == 0 {
		c.RouterFail = rapid.SliceOfNDistinct(rapid.IntRange(1, 8), 1, 3, func(i int) int { return i }).Draw(t, "fail")
	}
	if rapid.IntRange(0, 4).Draw(t, "notready") == 0 {
		c.NotReadyMin = rapid.IntRange(1, 3).Draw(t, "notreadymin")
	}
	c.SecondPass = rapid.IntRange(0, 2).Draw(t, "secondpass") == 0
	c.Cfg = verifsim.GenConfig(t, 300, 200000, 3*time.Hour, []time.Duration{time.Millisecond, time.Second, time.Minute})
	return c
}

func c44Cid(i int) cid.Cid {
	if i >= 1000 {
		switch i - 1000 {
		case 0:
			h, _ := mh.Sum([]byte("md5 key"), mh.MD5, -1)
			return cid.NewCidV1(cid.Raw, h)
		case 1:
			h, _ := mh.Sum([]byte("short key"), mh.SHA2_256, 8)
			return cid.NewCidV1(cid.Raw, h)
		default:
			h, _ := mh.Sum([]byte("murmur"), mh.MURMUR3X64_64, -1)
			return cid.NewCidV1(cid.Raw, h)
		}
	}
	h, _ := mh.Sum([]byte(fmt.Sprintf("c44-key-%d", i/2)), mh.SHA2_256, -1)
	if i%2 == 1 {
		// odd indices: another CID (dag-pb) with the same multihash as index i-1
		return cid.NewCidV1(cid.DagProtobuf, h)
	}
	return cid.NewCidV1(cid.Raw, h)
}

type c44Router struct {
	s       *verifsim.Sim
	batches [][]mh.Multihash
	calls   int
	fail    map[int]bool
	readyAt time.Duration
}

func (r *c44Router) call(keys []mh.Multihash) error {
	r.calls++
	n := r.calls
	r.s.Yield("router.provide")
	if r.fail[n] {
		r.s.Fault("router-error")
		return errors.New("c44: injected router error")
	}
	cp := make([]mh.Multihash, len(keys))
	copy(cp, keys)
	r.batches = append(r.batches, cp)
	r.s.Logf("router batch of %d", len(keys))
	return nil
}

func (r *c44Router) Provide(ctx context.Context, c cid.Cid, announce bool) error {
	return r.call([]mh.Multihash{c.Hash()})
}

func (r *c44Router) Ready() bool {
	ok := r.s.Now() >= r.readyAt
	if !ok {
		r.s.Probe("router-not-ready")
	}
	return ok
}

type c44RouterMany struct{ *c44Router }

func (r c44RouterMany) ProvideMany(ctx context.Context, keys []mh.Multihash) error {
	return r.call(keys)
}

// c44Ctx counts Err() polls; after the budget it reports cancellation, which
// turns an endless loop into a return.
type c44Ctx struct {
	context.Context
	mu      sync.Mutex
	polls   int
	budget  int
	tripped bool
	done    chan struct{}
}

func (c *c44Ctx) Err() error {
	c.mu.Lock()
	defer c.mu.Unlock()
	c.polls++
	if c.polls > c.budget {
		if !c.tripped {
			c.tripped = true
			close(c.done)
		}
		return context.Canceled
	}
	return nil
}

func (c *c44Ctx) Done() <-chan struct{} { return c.done }

func c44Run(t *testing.T, ci any, trace bool) *verifsim.Result {
	c := ci.(*c44Case)
	return verifsim.Run(t, c.Cfg, trace, func(s *verifsim.Sim) {
		d := simds.New(s, "ds", nil)
		d.IgnoreCtx = true
		d.Quiet = true // the datastore is not the subject here; no scheduling noise from go-dsqueue
		rt := &c44Router{s: s, fail: map[int]bool{}, readyAt: time.Duration(c.NotReadyMin) * time.Minute}
		for _, n := range c.RouterFail {
			rt.fail[n] = true
		}
		var router Provide = rt
		if c.ProvideMany {
			router = c44RouterMany{rt}
		}
		// ---- key streams ----
		total := 0
		mkStream := func(keys []int, name string) KeyChanFunc {
			return func(ctx context.Context) (<-chan cid.Cid, error) {
				ch := make(chan cid.Cid)
				go func() {
					defer close(ch)
					for _, k := range keys {
						s.Yield("producer." + name)
						select {
						case ch <- c44Cid(k):
						case <-ctx.Done():
							return
						}
					}
				}()
				return ch, nil
			}
		}
		var kf KeyChanFunc
		var fns []KeyChanFunc
		for i, st := range c.Streams {
			total += len(st)
			fns = append(fns, mkStream(st, fmt.Sprintf("s%d", i)))
		}
		if c.Prioritized {
			kf = NewPrioritizedProvider(fns...)
		} else {
			kf = fns[0]
		}
		// record what the (prioritized) key provider emits
		var emitted []cid.Cid
		inner := kf
		kf = func(ctx context.Context) (<-chan cid.Cid, error) {
			in, err := inner(ctx)
			if err != nil {
				return nil, err
			}
			out := make(chan cid.Cid)
			go func() {
				defer close(out)
				for k := range in {
					emitted = append(emitted, k)
					select {
					case out <- k:
					case <-ctx.Done():
						return
					}
				}
			}()
			return out, nil
		}
		if c.Buffered {
			kf = NewBufferedProvider(kf)
		}
		opts := []Option{Online(router), KeyProvider(kf), ReproviderInterval(0)}
		if c.MaxBatch >= 0 {
			opts = append(opts, MaxBatchSize(uint(c.MaxBatch)))
		}
		callbacks := 0
		if c.Throughput >= 0 {
			opts = append(opts, ThroughputReport(func(reprovide, complete bool, n uint, dur time.Duration) bool {
				callbacks++
				return c.CallbackMore
			}, uint(c.Throughput)))
		}
		sys, err := New(d, opts...)
		if err != nil {
			panic(err)
		}
		defer func() {
			s.Drain()
			cerr := make(chan error, 1)
			go func() { cerr <- sys.Close() }()
			select {
			case <-cerr:
			case <-time.After(10 * time.Minute):
			}
		}()
		passes := 1
		if c.SecondPass {
			passes = 2
		}
		for pass := 0; pass < passes; pass++ {
			rt.batches, emitted = nil, nil
			// the throughput threshold bounds the batches of a pass only if the callback is
			// still installed when the pass starts (a callback that answered "no more
			// reports" is removed for good)
			thresholdApplies := c.Throughput > 0 && !(callbacks > 0 && !c.CallbackMore)
			budget := 20*total + 200
			cctx := &c44Ctx{Context: context.Background(), budget: budget, done: make(chan struct{})}
			var rerr error
			returned := false
			s.Logf("reprovide pass %d", pass+1)
			s.Go("reprovide", func() {
				rerr = sys.Reprovide(cctx)
				returned = true
			})
			done := s.Loop()
			if !done {
				if s.DeadlockSeen() {
					s.Failf("reprovide-hang", "Reprovide (pass %d) never returned:\n%s", pass+1, verifsim.StuckStacks())
				}
			}
			if !returned || s.Failed() {
				return
			}
			if cctx.tripped {
				s.Failf("non-termination", "Reprovide polled its context more than %d times for %d keys without finishing (max batch %d, throughput threshold %d); the pass does not terminate", budget, total, c.MaxBatch, c.Throughput)
				return
			}
			if rerr != nil {
				s.Failf("reprovide-error", "Reprovide failed with %v although neither the key provider nor the context failed", rerr)
				return
			}
			// ---- oracles ----
			rejected := func(k cid.Cid) bool {
				p := k.Prefix()
				return p.MhType == mh.MD5 || p.MhType == mh.MURMUR3X64_64 || p.MhLength < 20
			}
			announced := map[string]bool{}
			limit := -1
			if c.MaxBatch > 0 {
				limit = c.MaxBatch
			}
			if thresholdApplies && (limit < 0 || c.Throughput < limit) {
				limit = c.Throughput
			}
			if !c.ProvideMany {
				limit = 1
			}
			for _, b := range rt.batches {
				if limit > 0 && len(b) > limit {
					s.Failf("batch-too-large", "the router received a batch of %d keys, the configured maximum is %d (MaxBatchSize %d, throughput threshold %d, ProvideMany=%v)", len(b), limit, c.MaxBatch, c.Throughput, c.ProvideMany)
					return
				}
				for _, h := range b {
					announced[string(h)] = true
				}
			}
			for _, st := range c.Streams {
				for _, k := range st {
					kc := c44Cid(k)
					if rejected(kc) {
						if announced[string(kc.Hash())] {
							s.Failf("rejected-key-announced", "key %s, which the allowlist rejects, was announced", kc)
							return
						}
						continue
					}
					if len(c.RouterFail) == 0 && !announced[string(kc.Hash())] {
						s.Failf("key-not-announced", "key %s (index %d) was produced by the key provider but never passed to the router (honest router, %d batches)", kc, k, len(rt.batches))
						return
					}
				}
			}
			// prioritized provider: every key of every stream, minus what an earlier stream emitted
			if c.Prioritized {
				// Earliest stream of every key, its multiplicity there, and the order of first
				// occurrences. Whether duplicates *within* one stream are emitted once or
				// several times is not fixed by the statement; both are accepted.
				type info struct{ stream, mult, order int }
				first := map[string]*info{}
				n := 0
				for i, st := range c.Streams {
					for _, k := range st {
						ks := c44Cid(k).KeyString()
						if in, ok := first[ks]; ok {
							if in.stream == i {
								in.mult++
							}
							continue
						}
						first[ks] = &info{stream: i, mult: 1, order: n}
						n++
					}
				}
				count := map[string]int{}
				lastOrder := -1
				for i, k := range emitted {
					in, ok := first[k.KeyString()]
					if !ok {
						s.Failf("prioritized-wrong", "the prioritized provider emitted %s, which is in none of the streams %v", k, c.Streams)
						return
					}
					count[k.KeyString()]++
					if count[k.KeyString()] > in.mult {
						s.Failf("prioritized-wrong", "the prioritized provider emitted %s %d times; it occurs %d time(s) in its first stream (#%d), later streams must not emit it again (streams %v)", k, count[k.KeyString()], in.mult, in.stream, c.Streams)
						return
					}
					if count[k.KeyString()] == 1 {
						if in.order < lastOrder {
							s.Failf("prioritized-wrong", "emission #%d (%s) is out of order with respect to the stream priorities (streams %v)", i, k, c.Streams)
							return
						}
						lastOrder = in.order
					}
				}
				for ks, in := range first {
					if count[ks] == 0 {
						kc, _ := cid.Cast([]byte(ks))
						s.Failf("prioritized-wrong", "key %s of stream #%d was never emitted by the prioritized provider in pass %d (streams %v)", kc, in.stream, pass+1, c.Streams)
						return
					}
				}
			}
		}
	})
}

func TestVerifC44(t *testing.T) {
	verifsim.Main(t, verifsim.Harness{
		Property: "C44",
		Name:     "reprovide",
		Gen:      c44Gen,
		New:      func() any { return &c44Case{} },
		Run:      c44Run,
		Sample: func(c any) any {
			cc := *c.(*c44Case)
			cc.Cfg.Tape = nil
			return cc
		},
	})
}
