package chunk

// C06 — chunkers are lossless, bounded and deterministic under any read
// fragmentation. Real: FromString and every built-in splitter. Simulated: the
// io.Reader seam (1-byte reads, seeded short reads, data together with io.EOF,
// interspersed (0, nil) reads, an injected error at offset k). Oracle:
// differential against the same splitter over one full bytes.Reader, plus
// concatenation, non-emptiness and the size limits of the specification.

import (
	"bytes"
	"errors"
	"fmt"
	"io"
	"runtime"
	"strings"
	"testing"
	"time"

	"github.com/ipfs/boxo/internal/verifsim"
	"pgregory.net/rapid"
)

type c06Case struct {
	Cfg       verifsim.Config `json:"cfg"`
	Spec      string          `json:"spec"`
	InputKind string          `json:"input_kind"` // random constant periodic
	Size      int             `json:"size"`
	DataSeed  int             `json:"data_seed"`
	Frag      string          `json:"frag"` // one short eofdata zeros error
	FragSeed  int             `json:"frag_seed"`
	ErrAt     int             `json:"err_at"`
	// Prelude: another specification, chunked to the end over PreludeSize bytes
	// before the stream under test ("" = none)
	Prelude     string `json:"prelude,omitempty"`
	PreludeSize int    `json:"prelude_size,omitempty"`
}

func c06Gen(t *rapid.T, tier string) any {
	c := &c06Case{}
	maxSize := 256 << 10
	if tier == "thorough" {
		maxSize = 2 << 20
	}
	kind := rapid.SampledFrom([]string{"size", "size", "rabin3", "rabin3", "rabin1", "buzhash", "default"}).Draw(t, "speckind")
	switch kind {
	case "size":
		n := rapid.SampledFrom([]int{1, 2, 7, 64, 1000, 4096, 65536, 262144, 300000, 400000, 524288}).Draw(t, "n")
		c.Spec = fmt.Sprintf("size-%d", n)
		if n <= 7 {
			maxSize = 4096
		}
		if n > 262144 {
			maxSize = 3*n + 1 // several chunks from the larger pool buckets
		}
	case "rabin3":
		min := rapid.SampledFrom([]int{16, 17, 64, 256, 4096}).Draw(t, "min")
		avg := min*rapid.SampledFrom([]int{1, 2, 4}).Draw(t, "avgmul") + 1
		max := avg*rapid.SampledFrom([]int{1, 2, 4}).Draw(t, "maxmul") + 1
		c.Spec = fmt.Sprintf("rabin-%d-%d-%d", min, avg, max)
		if max <= 1024 {
			maxSize = 64 << 10
		}
	case "rabin1":
		avg := rapid.SampledFrom([]int{1, 17, 30, 47, 48, 49, 512, 16384, 262144}).Draw(t, "avg")
		c.Spec = fmt.Sprintf("rabin-%d", avg)
		if avg <= 512 {
			maxSize = 64 << 10
		}
	case "buzhash":
		c.Spec = "buzhash"
		maxSize = 700 << 10
		if tier == "thorough" {
			maxSize = 2 << 20
		}
	default:
		c.Spec = "default"
		maxSize = 600 << 10
	}
	c.InputKind = rapid.SampledFrom([]string{"random", "random", "constant", "periodic"}).Draw(t, "ikind")
	c.Size = rapid.SampledFrom([]int{0, 1, 15, 16, 17, 31, 32, 33, 1000, maxSize / 3, maxSize - 1, maxSize}).Draw(t, "size")
	if rapid.Bool().Draw(t, "anysize") {
		c.Size = rapid.IntRange(0, maxSize).Draw(t, "sizeN")
	}
	c.DataSeed = rapid.IntRange(0, 1<<20).Draw(t, "dseed")
	c.Frag = rapid.SampledFrom([]string{"one", "short", "short", "eofdata", "zeros", "error"}).Draw(t, "frag")
	if c.Frag == "one" && c.Size > 300<<10 {
		c.Frag = "short"
	}
	c.FragSeed = rapid.IntRange(0, 1<<20).Draw(t, "fseed")
	if c.Size > 0 {
		c.ErrAt = rapid.IntRange(0, c.Size).Draw(t, "errat")
	}
	if rapid.IntRange(0, 2).Draw(t, "hasprelude") == 0 {
		c.Prelude = rapid.SampledFrom([]string{"buzhash", "buzhash", "default", "size-65536", "size-400000", "rabin-512"}).Draw(t, "prelude")
		c.PreludeSize = rapid.SampledFrom([]int{0, 1000, 300000, 700000}).Draw(t, "presize")
	}
	c.Cfg = verifsim.GenConfig(t, 0, 100, time.Minute, nil)
	return c
}

func c06Input(c *c06Case) []byte {
	b := make([]byte, c.Size)
	switch c.InputKind {
	case "constant":
		for i := range b {
			b[i] = byte(c.DataSeed)
		}
	case "periodic":
		p := c.DataSeed%97 + 1
		for i := range b {
			b[i] = byte((i % p) * 7)
		}
	default:
		x := uint32(c.DataSeed*2654435761 + 1)
		for i := range b {
			x ^= x << 13
			x ^= x >> 17
			x ^= x << 5
			b[i] = byte(x)
		}
	}
	return b
}

var errC06 = errors.New("c06: injected read error")

// c06Reader fragments reads according to the plan.
type c06Reader struct {
	data  []byte
	pos   int
	mode  string
	x     uint32
	errAt int
	reads int
	zeros int
}

func (r *c06Reader) rnd() int {
	r.x ^= r.x << 13
	r.x ^= r.x >> 17
	r.x ^= r.x << 5
	return int(r.x >> 8)
}

func (r *c06Reader) Read(p []byte) (int, error) {
	r.reads++
	if len(p) == 0 {
		return 0, nil
	}
	rem := len(r.data) - r.pos
	if r.mode == "error" && r.pos >= r.errAt {
		return 0, errC06
	}
	if rem == 0 {
		return 0, io.EOF
	}
	n := len(p)
	switch r.mode {
	case "one":
		n = 1
	case "short", "eofdata", "error":
		n = r.rnd()%min(len(p), 70000) + 1
	case "zeros":
		if r.rnd()%3 == 0 && r.zeros < 1000 {
			r.zeros++
			return 0, nil
		}
		n = r.rnd()%min(len(p), 5000) + 1
	}
	if n > rem {
		n = rem
	}
	if r.mode == "error" && r.pos+n > r.errAt {
		n = r.errAt - r.pos
		if n == 0 {
			return 0, errC06
		}
	}
	copy(p, r.data[r.pos:r.pos+n])
	r.pos += n
	if r.mode == "eofdata" && r.pos == len(r.data) {
		return n, io.EOF // the last bytes arrive together with io.EOF
	}
	return n, nil
}

func c06Chunks(sp Splitter) ([][]byte, error) {
	var out [][]byte
	for i := 0; i < 10_000_000; i++ {
		b, err := sp.NextBytes()
		if err != nil {
			if err == io.EOF {
				return out, nil
			}
			return out, err
		}
		// the chunk is kept as returned, like the importers keep it inside the
		// nodes they build: a splitter that hands out memory it (or a buffer
		// pool) reuses while the chunk is still referenced corrupts it
		out = append(out, b)
	}
	return out, errors.New("splitter never finished")
}

func c06Limits(spec string) (minSz, maxSz int) {
	var a, b, m int
	switch {
	case spec == "default":
		return int(DefaultBlockSize), int(DefaultBlockSize)
	case spec == "buzhash":
		return buzMin, buzMax
	}
	if n, _ := fmt.Sscanf(spec, "size-%d", &a); n == 1 {
		return a, a
	}
	if n, _ := fmt.Sscanf(spec, "rabin-%d-%d-%d", &a, &b, &m); n == 3 {
		return a, m
	}
	if n, _ := fmt.Sscanf(spec, "rabin-%d", &a); n == 1 {
		return a / 3, a + a/2
	}
	return 0, ChunkSizeLimit
}

func c06Run(t *testing.T, ci any, trace bool) *verifsim.Result {
	c := ci.(*c06Case)
	// Buffer pools are live in this check (its runs have one goroutine and no
	// schedule to keep repeatable); they are emptied before every run, so that a
	// run sees no buffers of earlier runs and a replay behaves like the worker.
	runtime.VerifPools(true)
	defer runtime.VerifPools(false)
	return verifsim.Run(t, c.Cfg, trace, func(s *verifsim.Sim) {
		input := c06Input(c)
		if c.Prelude != "" {
			// another stream chunked to its end first: splitters share buffer pools
			pre, err := FromString(bytes.NewReader(c06Input(&c06Case{InputKind: "random", Size: c.PreludeSize, DataSeed: c.DataSeed + 1})), c.Prelude)
			if err == nil {
				_, _ = c06Chunks(pre)
				s.Logf("prelude %s over %d bytes", c.Prelude, c.PreludeSize)
			}
		}
		ref, err := FromString(bytes.NewReader(input), c.Spec)
		if err != nil {
			// The generator also draws the short rabin form with averages whose derived
			// minimum (avg/3) is below 16, the documented lower bound of the explicit
			// form: the parser may refuse those (a spec that is not accepted is outside
			// the property); if it accepts one, the bounds below apply to it.
			var avg int
			if n, _ := fmt.Sscanf(c.Spec, "rabin-%d", &avg); n == 1 && strings.Count(c.Spec, "-") == 1 && avg/3 < 16 && errors.Is(err, ErrRabinMin) {
				s.Probe("small-rabin-average-refused")
				return
			}
			s.Failf("spec-rejected", "FromString rejected the specification %q: %v", c.Spec, err)
			return
		}
		want, err := c06Chunks(ref)
		if err != nil {
			s.Failf("reference-failed", "chunking %d bytes with %q over a plain bytes.Reader failed: %v", len(input), c.Spec, err)
			return
		}
		// properties of the reference chunking itself
		minSz, maxSz := c06Limits(c.Spec)
		var cat []byte
		for i, ch := range want {
			cat = append(cat, ch...)
			if len(ch) == 0 {
				s.Failf("empty-chunk", "%q over %d bytes: chunk %d is empty", c.Spec, len(input), i)
				return
			}
			if len(ch) > maxSz || len(ch) > ChunkSizeLimit {
				s.Failf("chunk-too-large", "%q over %d bytes: chunk %d has %d bytes, the limit is %d", c.Spec, len(input), i, len(ch), maxSz)
				return
			}
			if i < len(want)-1 && len(ch) < minSz {
				s.Failf("chunk-too-small", "%q over %d bytes: chunk %d (not the last) has %d bytes, the minimum is %d", c.Spec, len(input), i, len(ch), minSz)
				return
			}
		}
		if !bytes.Equal(cat, input) {
			s.Failf("not-lossless", "%q over %d bytes: the chunks concatenate to %d bytes that differ from the input", c.Spec, len(input), len(cat))
			return
		}
		// the same splitter over the fragmenting reader
		rd := &c06Reader{data: input, mode: c.Frag, x: uint32(c.FragSeed*2246822519 + 7), errAt: c.ErrAt}
		sp, err := FromString(rd, c.Spec)
		if err != nil {
			s.Failf("spec-rejected", "FromString rejected %q: %v", c.Spec, err)
			return
		}
		got, gerr := c06Chunks(sp)
		s.Fault("fragmented-read-" + c.Frag)
		s.Logf("spec=%s size=%d frag=%s chunks=%d reads=%d err=%v", c.Spec, len(input), c.Frag, len(got), rd.reads, gerr != nil)
		if c.Frag == "error" {
			if gerr == nil {
				s.Failf("error-swallowed", "%q: the reader failed at offset %d of %d but the splitter reported a clean end after %d chunks", c.Spec, c.ErrAt, len(input), len(got))
				return
			}
			if !errors.Is(gerr, errC06) {
				s.Failf("wrong-error", "%q: the reader's error was replaced by %v", c.Spec, gerr)
				return
			}
			// chunks emitted before the error must be a prefix of the reference chunking
			off := 0
			for i, ch := range got {
				if i >= len(want) || !bytes.Equal(ch, want[i]) {
					// the last chunk before an error may be a partial one only if the splitter treats the error as the end; it must not
					s.Failf("boundaries-depend-on-reader", "%q with a read error at offset %d: chunk %d (%d bytes at offset %d) is not chunk %d of the reference chunking", c.Spec, c.ErrAt, i, len(ch), off, i)
					return
				}
				off += len(ch)
			}
			return
		}
		if gerr != nil {
			s.Failf("unexpected-error", "%q with fragmentation %q: %v", c.Spec, c.Frag, gerr)
			return
		}
		if len(got) != len(want) {
			s.Failf("boundaries-depend-on-reader", "%q over %d bytes: %d chunks with fragmentation %q, %d chunks over a plain reader", c.Spec, len(input), len(got), c.Frag, len(want))
			return
		}
		for i := range got {
			if !bytes.Equal(got[i], want[i]) {
				s.Failf("boundaries-depend-on-reader", "%q over %d bytes with fragmentation %q: chunk %d has %d bytes, over a plain reader %d bytes (or different content)", c.Spec, len(input), c.Frag, i, len(got[i]), len(want[i]))
				return
			}
		}
	})
}

func TestVerifC06(t *testing.T) {
	verifsim.Main(t, verifsim.Harness{
		Property: "C06",
		Name:     "chunkers-fragmented-reader",
		Gen:      c06Gen,
		New:      func() any { return &c06Case{} },
		Run:      c06Run,
		Sample: func(c any) any {
			cc := *c.(*c06Case)
			cc.Cfg.Tape = nil
			return cc
		},
	})
}
