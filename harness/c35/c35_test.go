package messagequeue

// C35 — the per-peer want-list converges to the client's current wants.
// Real: MessageQueue (run loop, recall lists, lock-free message construction),
// client wantlist, bitswap message. Simulated: the message network / sender
// (SendMsg parks, so producers run while a message is "in flight"), the clock
// (send debounce, 15 s / 30 s rebroadcast timers), the scheduler (with inserted
// yields). The DONT_HAVE timeout manager is disabled.

import (
	"context"
	"fmt"
	"os"
	"sort"
	"strings"
	"testing"
	"time"

	bsmsg "github.com/ipfs/boxo/bitswap/message"
	pb "github.com/ipfs/boxo/bitswap/message/pb"
	bsnet "github.com/ipfs/boxo/bitswap/network"
	bswl "github.com/ipfs/boxo/bitswap/client/wantlist"
	"github.com/ipfs/boxo/internal/verifsim"
	cid "github.com/ipfs/go-cid"
	"github.com/libp2p/go-libp2p/core/peer"
	"github.com/libp2p/go-libp2p/p2p/protocol/ping"
	mh "github.com/multiformats/go-multihash"
	"pgregory.net/rapid"
)

type c35Op struct {
	Kind   string `json:"k"` // wants bcast cancel rebroadcast sleep
	Blocks []int  `json:"b,omitempty"`
	Haves  []int  `json:"h,omitempty"`
	DurMS  int    `json:"d,omitempty"`
}

type c35Case struct {
	Cfg          verifsim.Config `json:"cfg"`
	Producers    [][]c35Op       `json:"producers"` // producer p owns CIDs p*4 .. p*4+3
	MaxMsgSize   int             `json:"max_msg_size"`
	SupportsHave bool            `json:"supports_have"`
}

const c35PerProducer = 4

func c35Cid(i int) cid.Cid {
	h, _ := mh.Sum([]byte(fmt.Sprintf("c35-%d", i)), mh.SHA2_256, -1)
	return cid.NewCidV1(cid.Raw, h)
}

func c35Gen(t *rapid.T, tier string) any {
	c := &c35Case{}
	np := rapid.IntRange(2, 3).Draw(t, "producers")
	maxOps := 8
	if tier == "thorough" {
		maxOps = 15
	}
	for p := 0; p < np; p++ {
		own := rapid.IntRange(p*c35PerProducer, p*c35PerProducer+c35PerProducer-1)
		gen := rapid.Custom(func(t *rapid.T) c35Op {
			op := c35Op{Kind: rapid.SampledFrom([]string{"wants", "wants", "wants", "bcast", "cancel", "cancel", "rebroadcast", "sleep"}).Draw(t, "k")}
			switch op.Kind {
			case "wants":
				op.Blocks = rapid.SliceOfN(own, 0, 3).Draw(t, "blocks")
				op.Haves = rapid.SliceOfN(own, 0, 3).Draw(t, "haves")
			case "bcast":
				op.Haves = rapid.SliceOfN(own, 1, 3).Draw(t, "haves")
			case "cancel":
				op.Blocks = rapid.SliceOfN(own, 1, 3).Draw(t, "cancels")
			case "sleep":
				op.DurMS = rapid.SampledFrom([]int{1, 20, 100, 2000, 16000, 31000}).Draw(t, "d")
			}
			return op
		})
		c.Producers = append(c.Producers, rapid.SliceOfN(gen, 1, maxOps).Draw(t, "ops"))
	}
	c.MaxMsgSize = rapid.SampledFrom([]int{1, 1, 60, 120, 400, 1 << 20}).Draw(t, "maxmsg")
	c.SupportsHave = rapid.IntRange(0, 3).Draw(t, "supportshave") != 0
	c.Cfg = verifsim.GenConfig(t, 600, 40000, 5*time.Minute, []time.Duration{time.Millisecond, 20 * time.Millisecond, 2 * time.Second, 15 * time.Second, 31 * time.Second})
	return c
}

type c35Sent struct {
	c      cid.Cid
	wtype  pb.Message_Wantlist_WantType
	cancel bool
	prio   int32
}

type c35Sender struct {
	s        *verifsim.Sim
	supports bool
	msgs     [][]c35Sent
	inflight int
	names    map[string]int
}

func (f *c35Sender) SendMsg(ctx context.Context, m bsmsg.BitSwapMessage) error {
	var es []c35Sent
	for _, e := range m.Wantlist() {
		es = append(es, c35Sent{c: e.Cid, wtype: e.WantType, cancel: e.Cancel, prio: e.Priority})
	}
	// stable order for the event log
	sort.Slice(es, func(i, j int) bool { return f.names[es[i].c.KeyString()] < f.names[es[j].c.KeyString()] })
	f.msgs = append(f.msgs, es)
	var parts []string
	for _, e := range es {
		k := "B"
		if e.wtype == pb.Message_Wantlist_Have {
			k = "H"
		}
		if e.cancel {
			k = "X"
		}
		parts = append(parts, fmt.Sprintf("%s%d", k, f.names[e.c.KeyString()]))
	}
	f.s.Logf("send [%s]", strings.Join(parts, " "))
	f.inflight++
	f.s.Yield("sendmsg")
	f.inflight--
	return nil
}
func (f *c35Sender) Reset() error       { return nil }
func (f *c35Sender) SupportsHave() bool { return f.supports }

type c35Net struct{ snd *c35Sender }

func (n *c35Net) Connect(context.Context, peer.AddrInfo) error { return nil }
func (n *c35Net) NewMessageSender(context.Context, peer.ID, *bsnet.MessageSenderOpts) (bsnet.MessageSender, error) {
	return n.snd, nil
}
func (n *c35Net) Latency(peer.ID) time.Duration { return 10 * time.Millisecond }
func (n *c35Net) Ping(context.Context, peer.ID) ping.Result {
	return ping.Result{RTT: 10 * time.Millisecond}
}
func (n *c35Net) Self() peer.ID { return peer.ID("self") }

// c35Expected: what the peer's want-list must hold for one CID given the owner's
// operations since its last cancel. "" = nothing, "B" = want-block, "H" = want-have.
type c35Intent struct{ block, peerHave, bcast bool }

func (in c35Intent) at(supportsHave bool) string {
	switch {
	case in.block:
		return "B"
	case in.bcast && !supportsHave:
		return "B" // broadcast want-haves are sent as want-blocks to peers without HAVE support
	case in.bcast, in.peerHave && supportsHave:
		return "H"
	}
	return ""
}

func c35Run(t *testing.T, ci any, trace bool) *verifsim.Result {
	c := ci.(*c35Case)
	return verifsim.Run(t, c.Cfg, trace, func(s *verifsim.Sim) {
		snd := &c35Sender{s: s, supports: c.SupportsHave, names: map[string]int{}}
		n := len(c.Producers) * c35PerProducer
		for i := 0; i < n; i++ {
			snd.names[c35Cid(i).KeyString()] = i
		}
		ctx, cancel := context.WithCancel(context.Background())
		defer cancel()
		mq := newMessageQueue(ctx, peer.ID("remote"), &c35Net{snd}, c.MaxMsgSize, sendErrorBackoff, maxValidLatency, nil, nil)
		mq.perPeerDelay = defaultPerPeerDelay
		mq.Startup()
		intent := make([]c35Intent, n)
		// CIDs for which a want was added while a cancel for the same CID was still
		// waiting to be sent (the trigger of the recorded known finding)
		overCancel := map[int]bool{}
		noteOverCancel := func(ix []int) {
			mq.wllock.Lock()
			for _, i := range ix {
				if mq.cancels.Has(c35Cid(i)) {
					overCancel[i] = true
				}
			}
			mq.wllock.Unlock()
		}
		cids := func(ix []int) []cid.Cid {
			var out []cid.Cid
			for _, i := range ix {
				out = append(out, c35Cid(i))
			}
			return out
		}
		for p, ops := range c.Producers {
			p, ops := p, ops
			s.Go(fmt.Sprintf("producer%d", p), func() {
				for _, op := range ops {
					s.Logf("p%d %s b%v h%v", p, op.Kind, op.Blocks, op.Haves)
					switch op.Kind {
					case "wants":
						noteOverCancel(op.Blocks)
						noteOverCancel(op.Haves)
						mq.AddWants(cids(op.Blocks), cids(op.Haves))
						for _, i := range op.Blocks {
							intent[i].block = true
						}
						for _, i := range op.Haves {
							intent[i].peerHave = true
						}
					case "bcast":
						noteOverCancel(op.Haves)
						mq.AddBroadcastWantHaves(cids(op.Haves))
						for _, i := range op.Haves {
							intent[i].bcast = true
						}
					case "cancel":
						mq.AddCancels(cids(op.Blocks))
						for _, i := range op.Blocks {
							intent[i] = c35Intent{}
						}
					case "rebroadcast":
						mq.RebroadcastNow()
					case "sleep":
						time.Sleep(time.Duration(op.DurMS) * time.Millisecond)
					}
				}
			})
		}
		done := s.Loop()
		if !done {
			if s.DeadlockSeen() {
				s.Failf("harness-deadlock", "producers blocked forever:\n%s", verifsim.StuckStacks())
			}
			s.Drain()
			mq.Shutdown()
			time.Sleep(time.Second)
			return
		}
		replay := func() map[int]string {
			wl := bswl.New()
			for _, m := range snd.msgs {
				for _, e := range m {
					if e.cancel {
						wl.Remove(e.c)
					} else {
						wl.Add(e.c, e.prio, e.wtype)
					}
				}
			}
			got := map[int]string{}
			for _, e := range wl.Entries() {
				k := "B"
				if e.WantType == pb.Message_Wantlist_Have {
					k = "H"
				}
				got[snd.names[e.Cid.KeyString()]] = k
			}
			return got
		}
		allOverCancel := true
		diff := func(got map[int]string) string {
			var bad []string
			allOverCancel = true
			for i := 0; i < n; i++ {
				want := intent[i].at(c.SupportsHave)
				if got[i] != want {
					note := ""
					if overCancel[i] {
						note = " [a want for it was added while its cancel was still unsent]"
					} else {
						allOverCancel = false
					}
					bad = append(bad, fmt.Sprintf("cid%d: peer has %q, client wants %q%s", i, got[i], want, note))
				}
			}
			return strings.Join(bad, "; ")
		}
		// first idle point: debounce timers only, no rebroadcast tick yet
		s.Settle(5 * time.Second)
		if mq.pendingWorkCount() == 0 && snd.inflight == 0 {
			if d := diff(replay()); d != "" {
				s.Probe("mismatch-at-first-idle-healed-only-by-rebroadcast")
				s.Logf("first idle mismatch: %s", d)
				if os.Getenv("C35_STRICT") != "" && !allOverCancel {
					s.Failf("mismatch-at-first-idle", "strict reading: %s", d)
				}
			}
		}
		// settled: at least two rebroadcast rounds later
		s.Settle(2*rebroadcastInterval + 20*time.Second)
		// rebroadcasts are periodic: step on until the queue is idle, i.e. not in the
		// middle of a (possibly multi-message) rebroadcast round
		for i := 0; i < 200 && (mq.pendingWorkCount() != 0 || snd.inflight != 0); i++ {
			s.Settle(137 * time.Millisecond)
		}
		if mq.pendingWorkCount() != 0 || snd.inflight != 0 {
			s.Failf("never-idle", "the queue still has %d pending items / %d sends in flight %v after the producers finished", mq.pendingWorkCount(), snd.inflight, 2*rebroadcastInterval+25*time.Second)
		} else if d := diff(replay()); d != "" {
			cls := "wantlist-diverged"
			if allOverCancel {
				cls = "wantlist-diverged-after-want-over-pending-cancel"
			}
			s.Failf(cls, "replaying the %d sent messages onto an empty want-list does not give the client's current wants (supportsHave=%v, maxMessageSize=%d): %s", len(snd.msgs), c.SupportsHave, c.MaxMsgSize, d)
		}
		s.Drain()
		mq.Shutdown()
		time.Sleep(time.Second)
	})
}

func TestVerifC35(t *testing.T) {
	verifsim.Main(t, verifsim.Harness{
		Property: "C35",
		Name:     "messagequeue",
		Gen:      c35Gen,
		New:      func() any { return &c35Case{} },
		Run:      c35Run,
		Sample: func(c any) any {
			cc := *c.(*c35Case)
			cc.Cfg.Tape = nil
			return cc
		},
	})
}
