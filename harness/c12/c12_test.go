package merkledag

// C12 — DAG walks visit exactly the reachable nodes and report the right CIDs.
// Real: Walk / WalkDepth (sequential and concurrent) with every combination of
// walk options. Simulated: the node getter (every fetch parks; completion order
// is the scheduler's), missing blocks, failing fetches, a recording provider.

import (
	"context"
	"errors"
	"fmt"
	"runtime/debug"
	"sort"
	"strings"
	"testing"
	"time"

	"github.com/ipfs/boxo/internal/verifsim"
	"github.com/ipfs/boxo/internal/verifsim/simdag"
	cid "github.com/ipfs/go-cid"
	format "github.com/ipfs/go-ipld-format"
	mh "github.com/multiformats/go-multihash"
	"pgregory.net/rapid"
)

type c12Case struct {
	Cfg         verifsim.Config `json:"cfg"`
	Links       [][]int         `json:"links"`
	Missing     []int           `json:"missing"`
	Failing     []int           `json:"failing"`
	SkipRoot    bool            `json:"skip_root"`
	Concurrency int             `json:"concurrency"` // 0 = option not given
	DepthLimit  int             `json:"depth_limit"` // -2 = plain Walk with a set; >= -1 WalkDepth with FetchGraph-style visit
	Handlers    []string        `json:"handlers"`    // ignoreerrors ignoremissing onmissing onerror-pass onerror-swallow onerror-replace
	Provider    bool            `json:"provider"`
	DirectLinks bool            `json:"direct_links"` // GetLinksDirect instead of GetLinksWithDAG
	// FetchGraph: call FetchGraphWithDepthLimit itself (its own depth-aware visit
	// function) instead of WalkDepth with the harness's visit function; what it
	// visited is read off the fetches the DAG service saw
	FetchGraph bool `json:"fetch_graph,omitempty"`
	// ProviderFail: nodes for which the provider's StartProviding returns an error
	ProviderFail []int `json:"provider_fail,omitempty"`
}

func c12Gen(t *rapid.T, tier string) any {
	c := &c12Case{}
	maxNodes := 12
	if tier == "thorough" {
		maxNodes = 40
	}
	n := rapid.IntRange(1, maxNodes).Draw(t, "n")
	c.Links = make([][]int, n)
	for i := 0; i < n-1; i++ {
		k := rapid.IntRange(0, 3).Draw(t, "nl")
		for j := 0; j < k; j++ {
			c.Links[i] = append(c.Links[i], rapid.IntRange(i+1, n-1).Draw(t, "child"))
		}
	}
	if rapid.Bool().Draw(t, "withmissing") {
		c.Missing = rapid.SliceOfNDistinct(rapid.IntRange(0, n-1), 0, 3, func(i int) int { return i }).Draw(t, "missing")
	}
	if rapid.IntRange(0, 2).Draw(t, "withfailing") == 0 {
		c.Failing = rapid.SliceOfNDistinct(rapid.IntRange(0, n-1), 0, 2, func(i int) int { return i }).Draw(t, "failing")
	}
	c.SkipRoot = rapid.Bool().Draw(t, "skiproot")
	c.Concurrency = rapid.SampledFrom([]int{0, 1, 2, 3, 8, 32}).Draw(t, "conc")
	c.DepthLimit = rapid.SampledFrom([]int{-2, -2, -1, 0, 1, 2, 3, 6}).Draw(t, "depth")
	c.Handlers = rapid.SliceOfN(rapid.SampledFrom([]string{"ignoreerrors", "ignoremissing", "onmissing", "onerror-pass", "onerror-swallow", "onerror-replace"}), 0, 3).Draw(t, "handlers")
	c.Provider = rapid.Bool().Draw(t, "provider")
	if c.Provider && rapid.IntRange(0, 2).Draw(t, "provfail") == 0 {
		c.ProviderFail = rapid.SliceOfNDistinct(rapid.IntRange(0, n-1), 1, 3, func(i int) int { return i }).Draw(t, "provfailnodes")
	}
	c.DirectLinks = rapid.Bool().Draw(t, "direct")
	if c.DepthLimit >= -1 {
		c.FetchGraph = rapid.Bool().Draw(t, "fetchgraph")
	}
	c.Cfg = verifsim.GenConfig(t, 400, 20000, time.Minute, nil)
	return c
}

type c12Provider struct {
	got  []string
	fail map[string]bool
	s    *verifsim.Sim
}

var errC12Provider = errors.New("c12: injected provider error")

// StartProviding records the request; for the multihashes of the fault plan it then
// fails. The walk only logs provider errors: they must not change what it visits
// or returns.
func (p *c12Provider) StartProviding(force bool, hs ...mh.Multihash) error {
	var err error
	for _, h := range hs {
		p.got = append(p.got, string(h))
		if p.fail[string(h)] {
			p.s.Fault("provider-error")
			err = errC12Provider
		}
	}
	return err
}
func (p *c12Provider) StopProviding(...mh.Multihash) error   { return nil }
func (p *c12Provider) ProvideOnce(...mh.Multihash) error     { return nil }
func (p *c12Provider) Clear() int                            { return 0 }
func (p *c12Provider) RefreshSchedule(...mh.Multihash) error { return nil }
func (p *c12Provider) Close() error                          { return nil }

var errC12Replaced = errors.New("c12: replaced error")

func c12Run(t *testing.T, ci any, trace bool) *verifsim.Result {
	c := ci.(*c12Case)
	// a runaway recursion should die quickly, not after eating a gigabyte
	debug.SetMaxStack(32 << 20)
	return verifsim.Run(t, c.Cfg, trace, func(s *verifsim.Sim) {
		n := len(c.Links)
		dag := simdag.New(s, nil)
		nodes := make([]*ProtoNode, n)
		cids := make([]cid.Cid, n)
		idx := map[string]int{}
		for i := n - 1; i >= 0; i-- {
			nd := NodeWithData([]byte(fmt.Sprintf("c12-node-%d", i)))
			for li, ch := range c.Links[i] {
				if err := nd.AddNodeLink(fmt.Sprintf("l%d", li), nodes[ch]); err != nil {
					panic(err)
				}
			}
			nodes[i], cids[i] = nd, nd.Cid()
			idx[nd.Cid().KeyString()] = i
			dag.Names[nd.Cid().KeyString()] = fmt.Sprintf("n%d", i)
		}
		missing, failing := map[int]bool{}, map[int]bool{}
		for _, m := range c.Missing {
			missing[m] = true
		}
		dag.FailKeys = map[string]bool{}
		for _, f := range c.Failing {
			if !missing[f] {
				failing[f] = true
				dag.FailKeys[cids[f].KeyString()] = true
			}
		}
		for i := 0; i < n; i++ {
			if !missing[i] {
				dag.Put(nodes[i])
			}
		}
		name := func(k cid.Cid) string {
			if i, ok := idx[k.KeyString()]; ok {
				return fmt.Sprintf("n%d", i)
			}
			return "?" + k.String()
		}

		// ---- options and recorders ----
		var opts []WalkOption
		if c.SkipRoot {
			opts = append(opts, SkipRoot())
		}
		if c.Concurrency > 0 {
			opts = append(opts, Concurrency(c.Concurrency))
		}
		type herr struct {
			c   cid.Cid
			err error
		}
		var onMissing []cid.Cid
		var onError []herr
		for _, h := range c.Handlers {
			switch h {
			case "ignoreerrors":
				opts = append(opts, IgnoreErrors())
			case "ignoremissing":
				opts = append(opts, IgnoreMissing())
			case "onmissing":
				opts = append(opts, OnMissing(func(k cid.Cid) { onMissing = append(onMissing, k) }))
			case "onerror-pass":
				opts = append(opts, OnError(func(k cid.Cid, err error) error { onError = append(onError, herr{k, err}); return err }))
			case "onerror-swallow":
				opts = append(opts, OnError(func(k cid.Cid, err error) error { onError = append(onError, herr{k, err}); return nil }))
			case "onerror-replace":
				opts = append(opts, OnError(func(k cid.Cid, err error) error {
					onError = append(onError, herr{k, err})
					if err != nil {
						return errC12Replaced
					}
					return nil
				}))
			}
		}
		prov := &c12Provider{s: s, fail: map[string]bool{}}
		for _, i := range c.ProviderFail {
			if i < n {
				prov.fail[string(cids[i].Hash())] = true
			}
		}
		if c.Provider {
			opts = append(opts, WithProvider(prov))
		}
		// reference: what the handler chain makes of a failure of node i
		fold := func(i int) error {
			var err error
			if missing[i] {
				err = format.ErrNotFound{Cid: cids[i]}
			} else {
				err = simdag.ErrInjected
			}
			for _, h := range c.Handlers {
				switch h {
				case "ignoreerrors", "onerror-swallow":
					err = nil
				case "ignoremissing":
					if format.IsNotFound(err) {
						err = nil
					}
				case "onerror-replace":
					if err != nil {
						err = errC12Replaced
					}
				}
			}
			return err
		}

		// ---- reference reachability (BFS, shortest distance) ----
		dist := map[int]int{0: 0}
		queue := []int{0}
		for len(queue) > 0 {
			i := queue[0]
			queue = queue[1:]
			if missing[i] || failing[i] {
				continue // no links known
			}
			for _, ch := range c.Links[i] {
				if _, ok := dist[ch]; !ok {
					dist[ch] = dist[i] + 1
					queue = append(queue, ch)
				}
			}
		}
		within := func(i int) bool {
			d, ok := dist[i]
			if !ok {
				return false
			}
			if c.DepthLimit >= 0 && d > c.DepthLimit {
				return false
			}
			return true
		}
		// a failing node aborts the walk iff its folded error is non-nil and it is expanded
		// (expanded = within the limit; with a limit, nodes exactly at the limit are still fetched)
		abortPossible := false
		for i := range dist {
			if (missing[i] || failing[i]) && within(i) && fold(i) != nil {
				abortPossible = true
			}
		}

		// ---- visit functions ----
		visited := map[string]bool{}
		visitCalls := map[string]int{}
		seenDepth := map[string]int{}
		visitSet := func(k cid.Cid) bool {
			visitCalls[k.KeyString()]++
			if visited[k.KeyString()] {
				return false
			}
			visited[k.KeyString()] = true
			return true
		}
		visitDepth := func(k cid.Cid, depth int) bool {
			visitCalls[k.KeyString()]++
			old, ok := seenDepth[k.KeyString()]
			if (ok && c.DepthLimit < 0) || (c.DepthLimit >= 0 && depth > c.DepthLimit) {
				return false
			}
			if !ok || old > depth {
				seenDepth[k.KeyString()] = depth
				visited[k.KeyString()] = true
				return true
			}
			return false
		}
		var getLinks GetLinks
		if c.DirectLinks {
			getLinks = GetLinksDirect(dag)
		} else {
			getLinks = GetLinksWithDAG(dag)
		}

		var werr error
		finished := false
		s.Go("walker", func() {
			ctx, cancel := context.WithCancel(context.Background())
			defer cancel()
			if c.FetchGraph {
				werr = FetchGraphWithDepthLimit(ctx, cids[0], c.DepthLimit, dag, opts...)
			} else if c.DepthLimit == -2 {
				werr = Walk(ctx, getLinks, cids[0], visitSet, opts...)
			} else {
				werr = WalkDepth(ctx, getLinks, cids[0], visitDepth, opts...)
			}
			finished = true
		})
		done := s.Loop()
		if !done {
			if s.DeadlockSeen() {
				s.Failf("walk-hang", "the walk never returned:\n%s", verifsim.StuckStacks())
			}
			s.Drain()
			return
		}
		s.Drain()
		_ = finished
		time.Sleep(time.Second)

		// ---- oracles ----
		skipRoot := c.SkipRoot
		if c.FetchGraph {
			// FetchGraph has no visit callback: a node was visited iff it was fetched
			// (the root included, whatever SkipRoot says about the callback)
			skipRoot = false
			for _, k := range dag.Gets {
				visited[k.KeyString()] = true
			}
		}
		var vis []string
		for k := range visited {
			i, ok := idx[k]
			if !ok {
				s.Failf("visited-unknown", "visit was called with a CID that is not in the DAG")
				return
			}
			vis = append(vis, fmt.Sprintf("n%d", i))
			if !within(i) {
				s.Failf("visited-unreachable", "visit accepted n%d, which is not reachable from the root within the limit (distance %v, limit %d)", i, dist[i], c.DepthLimit)
				return
			}
		}
		sort.Strings(vis)
		if werr == nil {
			var want []string
			for i := range dist {
				if within(i) && !(skipRoot && i == 0) {
					want = append(want, fmt.Sprintf("n%d", i))
				}
			}
			sort.Strings(want)
			if abortPossible {
				s.Failf("error-swallowed", "the walk returned nil although a reachable node fails and the handler chain %v does not turn its error into nil", c.Handlers)
				return
			}
			if strings.Join(vis, ",") != strings.Join(want, ",") {
				s.Failf("wrong-visited-set", "walk succeeded; visited [%s], reachable within limit [%s]", strings.Join(vis, ","), strings.Join(want, ","))
				return
			}
		} else {
			if !abortPossible {
				s.Failf("unexpected-error", "the walk failed with %q although no reachable failing node produces an error under handlers %v", werr, c.Handlers)
				return
			}
			ok := false
			for i := range dist {
				if (missing[i] || failing[i]) && within(i) {
					if fe := fold(i); fe != nil && (errors.Is(werr, fe) || werr.Error() == fe.Error()) {
						ok = true
					}
				}
			}
			if !ok {
				s.Failf("wrong-error", "the walk failed with %q, which is not what the handler chain %v produces for any reachable failing node", werr, c.Handlers)
				return
			}
		}
		// handler arguments name the node that actually failed
		for _, k := range onMissing {
			i, ok := idx[k.KeyString()]
			if !ok || !missing[i] {
				s.Failf("wrong-cid-to-handler", "OnMissing callback received %s, which is not a missing block (missing: %v)", name(k), c.Missing)
				return
			}
		}
		for _, he := range onError {
			i, ok := idx[he.c.KeyString()]
			if !ok || !(missing[i] || failing[i]) {
				s.Failf("wrong-cid-to-handler", "OnError handler received (%s, %v), but %s did not fail (missing %v, failing %v)", name(he.c), he.err, name(he.c), c.Missing, c.Failing)
				return
			}
			if he.err != nil && format.IsNotFound(he.err) {
				var nf format.ErrNotFound
				if errors.As(he.err, &nf) && !nf.Cid.Equals(he.c) {
					s.Failf("wrong-cid-to-handler", "OnError handler received CID %s with a not-found error for %s", name(he.c), name(nf.Cid))
					return
				}
			}
		}
		if werr == nil {
			// every missing node within reach must have been reported when OnMissing sees not-found errors first
			if len(c.Handlers) > 0 && c.Handlers[0] == "onmissing" {
				rep := map[int]bool{}
				for _, k := range onMissing {
					rep[idx[k.KeyString()]] = true
				}
				for i := range dist {
					if missing[i] && within(i) && !(false) && !rep[i] {
						s.Failf("missing-not-reported", "walk succeeded but OnMissing (first handler) never reported the reachable missing block n%d", i)
						return
					}
				}
			}
		}
		// provider: only nodes of the walk, and after a successful walk every fetched node
		if c.Provider {
			provided := map[int]int{}
			for _, h := range prov.got {
				found := -1
				for i := range cids {
					if string(cids[i].Hash()) == h {
						found = i
					}
				}
				if found < 0 {
					s.Failf("provider-unknown", "the provider was asked to announce a multihash that is not in the DAG")
					return
				}
				provided[found]++
				if !within(found) {
					s.Failf("provider-unreachable", "the provider was asked to announce n%d, which the walk cannot reach within the limit", found)
					return
				}
				if !visited[cids[found].KeyString()] && !(c.SkipRoot && found == 0) {
					s.Failf("provider-not-visited", "the provider was asked to announce n%d, which was not visited", found)
					return
				}
			}
			if werr == nil {
				for i := range dist {
					if within(i) && !missing[i] && !failing[i] && provided[i] == 0 {
						s.Failf("provider-missed", "walk succeeded but the provider was never asked to announce the fetched node n%d (announced: %v)", i, provided)
						return
					}
				}
			}
		}
	})
}

func TestVerifC12(t *testing.T) {
	verifsim.Main(t, verifsim.Harness{
		Property: "C12",
		Name:     "dag-walk",
		Gen:      c12Gen,
		New:      func() any { return &c12Case{} },
		Run:      c12Run,
		Sample: func(c any) any {
			cc := *c.(*c12Case)
			cc.Cfg.Tape = nil
			return cc
		},
	})
}
