package mfs

// C21 — MFS republisher publishes the latest root and never regresses.
// Deterministic simulation of the real Republisher (DESIGN.md §7 C21).

import (
	"context"
	"errors"
	"fmt"
	"testing"
	"time"

	"github.com/ipfs/boxo/internal/verifsim"
	cid "github.com/ipfs/go-cid"
	mh "github.com/multiformats/go-multihash"
	"pgregory.net/rapid"
)

type c21Op struct {
	Kind  string `json:"k"` // "new", "revert", "alias", "sleep"
	DurMS int    `json:"d,omitempty"`
}

type c21Waiter struct {
	DelayMS    int `json:"delay_ms"`
	DeadlineMS int `json:"deadline_ms"`
}

type c21Case struct {
	Cfg        verifsim.Config `json:"cfg"`
	ShortMS    int             `json:"short_ms"`
	LongMS     int             `json:"long_ms"`
	InitialPub bool            `json:"initial_published"`
	Updaters   [][]c21Op       `json:"updaters"`
	Waiters    []c21Waiter     `json:"waiters"`
	CloseAfter int             `json:"close_after_ms"` // <0: no Close task
	PubFail    []bool          `json:"pub_fail"`
	PubSlowMS  []int           `json:"pub_slow_ms"`
}

func c21Cid(i int) cid.Cid {
	h, _ := mh.Sum([]byte(fmt.Sprintf("c21-value-%d", i)), mh.SHA2_256, -1)
	return cid.NewCidV1(cid.Raw, h)
}

func c21Gen(t *rapid.T, tier string) any {
	c := &c21Case{}
	c.ShortMS = rapid.SampledFrom([]int{10, 100, 300}).Draw(t, "short")
	c.LongMS = c.ShortMS * rapid.SampledFrom([]int{1, 3, 10}).Draw(t, "longmul")
	c.InitialPub = rapid.Bool().Draw(t, "initial")
	maxOps := 8
	if tier == "thorough" {
		maxOps = 12
	}
	nu := rapid.IntRange(1, 2).Draw(t, "nupdaters")
	opGen := rapid.Custom(func(t *rapid.T) c21Op {
		k := rapid.SampledFrom([]string{"new", "new", "new", "revert", "alias", "sleep"}).Draw(t, "kind")
		op := c21Op{Kind: k}
		if k == "sleep" {
			op.DurMS = rapid.SampledFrom([]int{1, c.ShortMS / 2, c.ShortMS, c.LongMS, 2 * c.LongMS}).Draw(t, "dur")
		}
		return op
	})
	for i := 0; i < nu; i++ {
		c.Updaters = append(c.Updaters, rapid.SliceOfN(opGen, 1, maxOps).Draw(t, "ops"))
	}
	nw := rapid.IntRange(0, 2).Draw(t, "nwaiters")
	for i := 0; i < nw; i++ {
		c.Waiters = append(c.Waiters, c21Waiter{
			DelayMS:    rapid.SampledFrom([]int{0, 1, c.ShortMS, c.LongMS}).Draw(t, "wdelay"),
			DeadlineMS: rapid.SampledFrom([]int{c.ShortMS, 4 * c.LongMS, 20000}).Draw(t, "wdeadline"),
		})
	}
	c.CloseAfter = rapid.SampledFrom([]int{-1, -1, 0, c.ShortMS, 2 * c.LongMS}).Draw(t, "close")
	c.PubFail = rapid.SliceOfN(rapid.Bool(), 0, 6).Draw(t, "pubfail")
	c.PubSlowMS = rapid.SliceOfN(rapid.SampledFrom([]int{0, 0, 1, c.ShortMS, c.LongMS, 6000}), 0, 6).Draw(t, "pubslow")
	short, long := time.Duration(c.ShortMS)*time.Millisecond, time.Duration(c.LongMS)*time.Millisecond
	maxTape := 256
	if tier == "thorough" {
		maxTape = 600
	}
	c.Cfg = verifsim.GenConfig(t, maxTape, 1500, 2*time.Minute, []time.Duration{time.Millisecond, short / 2, short, long / 2, long, 2 * long, closeTimeout})
	return c
}

type c21Update struct {
	val      int
	inv, ret int64
}

type c21Publish struct {
	val        int
	start, end int64
	ok, slow   bool
}

type c21Rec struct {
	s       *verifsim.Sim
	updates []*c21Update
	pubs    []*c21Publish
	vals    map[string]int
	nextVal int
}

// lastOK returns the value of the last successful publish completed before seq
// (-1 when none).
func (r *c21Rec) lastOK(seq int64) int {
	v := -1
	for _, p := range r.pubs {
		if p.ok && p.end != 0 && p.end < seq {
			v = p.val
		}
	}
	return v
}

// satisfied: update u counts as "published or superseded by a published later
// value" at event seq if some successful publish completed before seq carries a
// value that was also handed over by an update that is not strictly older than u.
func (r *c21Rec) satisfied(u *c21Update, seq int64) bool {
	for _, p := range r.pubs {
		if !p.ok || p.end == 0 || p.end >= seq {
			continue
		}
		for _, u2 := range r.updates {
			if u2.val == p.val && u2.inv < seq && !(u2.ret != 0 && u2.ret < u.inv) {
				return true
			}
		}
	}
	return false
}

func c21Run(t *testing.T, ci any, trace bool) *verifsim.Result {
	c := ci.(*c21Case)
	return verifsim.Run(t, c.Cfg, trace, func(s *verifsim.Sim) {
		rec := &c21Rec{s: s, vals: map[string]int{}}
		aliasCid := map[int]cid.Cid{} // values whose CID is an alias (same multihash, other codec) of an earlier value's
		short, long := time.Duration(c.ShortMS)*time.Millisecond, time.Duration(c.LongMS)*time.Millisecond
		settling := false
		npub := 0
		inflight := 0
		pubfunc := func(ctx context.Context, v cid.Cid) error {
			idx := rec.vals[v.KeyString()]
			p := &c21Publish{val: idx, start: s.Seq()}
			rec.pubs = append(rec.pubs, p)
			k := npub
			npub++
			inflight++
			s.Logf("pub-start v%d", idx)
			s.Yield("pubfunc")
			fail := false
			if !settling {
				if k < len(c.PubSlowMS) && c.PubSlowMS[k] > 0 {
					p.slow = true
					time.Sleep(time.Duration(c.PubSlowMS[k]) * time.Millisecond)
				}
				if k < len(c.PubFail) && c.PubFail[k] {
					fail = true
				}
			}
			inflight--
			p.ok = !fail
			p.end = s.Seq()
			if fail {
				s.Fault("publish-error")
				s.Logf("pub-fail v%d", idx)
				return errors.New("injected publish failure")
			}
			s.Logf("pub-ok v%d", idx)
			// (a) no regression
			for _, q := range rec.pubs {
				if q == p || !q.ok || q.val == p.val {
					continue
				}
				older := true
				anyV := false
				for _, uv := range rec.updates {
					if uv.val != p.val || uv.inv > p.start {
						continue
					}
					anyV = true
					for _, uw := range rec.updates {
						if uw.val != q.val || uw.inv > q.start {
							continue
						}
						if !(uv.ret != 0 && uv.ret < uw.inv) {
							older = false
						}
					}
				}
				if anyV && older {
					s.Failf("regression", "published v%d after v%d although every Update(v%d) returned before every Update(v%d) was invoked", p.val, q.val, p.val, q.val)
				}
			}
			if _, known := c21ValKnown(rec, idx); !known {
				s.Failf("phantom", "published v%d which was never handed to Update", idx)
			}
			return nil
		}

		initial := cid.Undef
		if c.InitialPub {
			initial = c21Cid(0)
			rec.vals[initial.KeyString()] = 0
			// model the construction-time value as an update+publish at time zero
			rec.updates = append(rec.updates, &c21Update{val: 0, inv: -2, ret: -1})
			rec.pubs = append(rec.pubs, &c21Publish{val: 0, start: -1, end: -1, ok: true})
		}
		rec.nextVal = 1
		rp := NewRepublisher(pubfunc, short, long, initial)

		closed := false
		var closeInv int64
		for i, ops := range c.Updaters {
			ops := ops
			s.Go(fmt.Sprintf("updater%d", i), func() {
				for _, op := range ops {
					switch op.Kind {
					case "sleep":
						time.Sleep(time.Duration(op.DurMS) * time.Millisecond)
					case "new", "revert", "alias":
						val := rec.nextVal
						if op.Kind == "revert" {
							if lv := rec.lastOK(1 << 62); lv >= 0 {
								val = lv
							}
						}
						if val == rec.nextVal {
							rec.nextVal++
						}
						cv := c21Cid(val)
						if op.Kind == "alias" {
							// a new value (another CID, never used before in this run) that shares
							// its multihash with the last published one: same bytes, other codec
							if lv := rec.lastOK(1 << 62); lv >= 0 {
								base := c21Cid(lv)
								if bc, ok := aliasCid[lv]; ok {
									base = bc
								}
								for _, codec := range []uint64{cid.DagProtobuf, cid.DagCBOR, cid.DagJSON, cid.GitRaw, cid.Libp2pKey} {
									cand := cid.NewCidV1(codec, base.Hash())
									if _, used := rec.vals[cand.KeyString()]; !used && !cand.Equals(base) {
										cv = cand
										aliasCid[val] = cand
										break
									}
								}
							}
						}
						rec.vals[cv.KeyString()] = val
						u := &c21Update{val: val, inv: s.Seq()}
						rec.updates = append(rec.updates, u)
						s.Logf("update-inv v%d", val)
						rp.Update(cv)
						u.ret = s.Seq()
						s.Logf("update-ret v%d", val)
					}
				}
			})
		}
		for i, w := range c.Waiters {
			w := w
			s.Go(fmt.Sprintf("waiter%d", i), func() {
				time.Sleep(time.Duration(w.DelayMS) * time.Millisecond)
				ctx, cancel := context.WithTimeout(context.Background(), time.Duration(w.DeadlineMS)*time.Millisecond)
				defer cancel()
				inv := s.Seq()
				s.Logf("waitpub-inv")
				err := rp.WaitPub(ctx)
				ret := s.Seq()
				s.Logf("waitpub-ret err=%v", err != nil)
				if err != nil {
					s.Probe("waitpub-deadline")
					return
				}
				// (b) every update handed over before the call is published or superseded
				for _, u := range rec.updates {
					if u.ret != 0 && u.ret < inv && !rec.satisfied(u, ret) {
						s.Failf("waitpub-early", "WaitPub returned nil but Update(v%d), which returned before the call, is neither published nor superseded by a published value that is not older", u.val)
					}
				}
			})
		}
		if c.CloseAfter >= 0 {
			s.Go("closer", func() {
				time.Sleep(time.Duration(c.CloseAfter) * time.Millisecond)
				closeInv = s.Seq()
				stalls := s.TimeAdvCount()
				s.Logf("close-inv")
				err := rp.Close()
				closed = true
				ret := s.Seq()
				s.Logf("close-ret err=%v", err != nil)
				// a scheduler-injected stall of every goroutine inside the window can make
				// the closeTimeout fire legitimately
				disturbed := inflight > 0 || s.TimeAdvCount() != stalls
				for _, p := range rec.pubs {
					if p.end == 0 || (p.end > closeInv && (!p.ok || p.slow)) {
						disturbed = true
					}
				}
				if err != nil {
					s.Probe("close-timeout")
					if disturbed {
						return // documented: gave up after closeTimeout while publishing kept failing / was slow
					}
				}
				for _, u := range rec.updates {
					if u.ret != 0 && u.ret < closeInv && !rec.satisfied(u, ret) {
						s.Failf("close-lost", "Close returned (err=%v) with no failing or slow publish in its window, but Update(v%d) handed over before Close is neither published nor superseded", err, u.val)
					}
				}
			})
		}

		done := s.Loop()
		if !done && !s.Failed() {
			if s.DeadlockSeen() {
				s.Failf("deadlock", "tasks blocked forever:\n%s", verifsim.StuckStacks())
			}
		}
		// settle phase: no more failures, no slowness
		settling = true
		if done && !closed && c.CloseAfter < 0 && !s.Failed() {
			s.Settle(3*long + 2*short + 7*time.Second)
			// (c) the last published value is a maximal update
			if len(rec.updates) > 0 {
				l := rec.lastOK(1 << 62)
				ok := false
				for _, ul := range rec.updates {
					if ul.val != l {
						continue
					}
					maximal := true
					for _, u := range rec.updates {
						if ul.ret != 0 && ul.ret < u.inv && u.val != l {
							maximal = false
						}
					}
					if maximal {
						ok = true
					}
				}
				if !ok {
					s.Failf("not-eventually-published", "after settling (no failures, %v) the last published value is v%d, which is older than a later update", 3*long+2*short+7*time.Second, l)
				}
			}
		}
		s.Drain()
		cerr := make(chan error, 1)
		go func() { cerr <- rp.Close() }()
		select {
		case <-cerr:
		case <-time.After(time.Minute):
			s.Failf("close-hang", "Close did not return within a simulated minute")
		}
	})
}

func c21ValKnown(rec *c21Rec, idx int) (int, bool) {
	for _, u := range rec.updates {
		if u.val == idx {
			return idx, true
		}
	}
	return 0, false
}

func TestVerifC21(t *testing.T) {
	verifsim.Main(t, verifsim.Harness{
		Property: "C21",
		Name:     "republisher",
		Gen:      c21Gen,
		New:      func() any { return &c21Case{} },
		Run:      c21Run,
		Sample: func(c any) any {
			cc := c.(*c21Case)
			return map[string]any{"short_ms": cc.ShortMS, "long_ms": cc.LongMS, "updaters": cc.Updaters, "waiters": cc.Waiters,
				"close_after_ms": cc.CloseAfter, "pub_fail": cc.PubFail, "pub_slow_ms": cc.PubSlowMS, "tape_len": len(cc.Cfg.Tape), "stay": cc.Cfg.Stay}
		},
	})
}
