package mfs

// C19 — MFS behaves as a hierarchical filesystem and persists what it shows.
// One client drives a generated history against the real MFS over the simulated
// DAG service; the republisher runs on the fake clock. After every operation the
// complete tree (names, types, contents) is compared with an in-memory model;
// after flushes, and across restarts from the last published root, the root DAG
// is read with the plain UnixFS readers and compared with the model as well.

import (
	"bytes"
	"context"
	"fmt"
	"io"
	"os"
	gopath "path"
	"sort"
	"strings"
	"testing"
	"time"

	"github.com/ipfs/boxo/internal/verifsim"
	"github.com/ipfs/boxo/internal/verifsim/simdag"
	dag "github.com/ipfs/boxo/ipld/merkledag"
	ft "github.com/ipfs/boxo/ipld/unixfs"
	uio "github.com/ipfs/boxo/ipld/unixfs/io"
	cid "github.com/ipfs/go-cid"
	ipld "github.com/ipfs/go-ipld-format"
	"pgregory.net/rapid"
)

type c19Op struct {
	Kind    string `json:"k"` // mkdir create write truncate mv rm chmod touch flush flushmemfree lookup list sleep restart
	Path    string `json:"p,omitempty"`
	Dst     string `json:"dst,omitempty"`
	Parents bool   `json:"parents,omitempty"`
	Size    int    `json:"size,omitempty"`
	DurMS   int    `json:"d,omitempty"`
}

type c19Case struct {
	Cfg        verifsim.Config `json:"cfg"`
	Ops        []c19Op         `json:"ops"`
	MaxLinks   int             `json:"max_links"`
	Fanout     int             `json:"fanout"`
	ShardBytes int             `json:"shard_bytes"`
	// Sparse: the whole-tree comparison (which walks every directory and thereby
	// pushes unpropagated changes up, an observer effect) runs only after lookup,
	// list and flush operations and at the end, not after every operation
	Sparse bool `json:"sparse,omitempty"`
}

var c19Paths = []string{"/a", "/b", "/a/x", "/b/x", "/f", "/g", "/a/f", "/b/f", "/a/x/f", "/b/x/f", "/a/x/g", "/x", "/a/b", "/b/x/x"}

func c19Gen(t *rapid.T, tier string) any {
	c := &c19Case{}
	maxOps := 16
	if tier == "thorough" {
		maxOps = 30
	}
	kinds := []string{"mkdir", "mkdir", "mkdir", "create", "create", "write", "write", "truncate", "mv", "mv", "mv", "mv", "rm", "chmod", "touch", "flush", "flushmemfree", "lookup", "list", "sleep", "restart"}
	// state-aware generation: a generation-time copy of the tree model steers
	// operands towards entries that exist, so that moves, overwrites and
	// removals of real entries are frequent
	gm := c19NewDir()
	listAll := func(wantDir, wantFile bool) []string {
		var out []string
		var rec func(n *c19Node, p string)
		rec = func(n *c19Node, p string) {
			var names []string
			for k := range n.children {
				names = append(names, k)
			}
			sort.Strings(names)
			for _, k := range names {
				ch := n.children[k]
				if (ch.dir && wantDir) || (!ch.dir && wantFile) {
					out = append(out, p+"/"+k)
				}
				if ch.dir {
					rec(ch, p+"/"+k)
				}
			}
		}
		rec(gm, "")
		return out
	}
	pick := func(t *rapid.T, existing []string, label string) string {
		if len(existing) > 0 && rapid.IntRange(0, 4).Draw(t, label+"-existing") != 0 {
			return rapid.SampledFrom(existing).Draw(t, label)
		}
		return rapid.SampledFrom(c19Paths).Draw(t, label+"-any")
	}
	nOps := rapid.IntRange(1, maxOps).Draw(t, "nops")
	for i := 0; i < nOps; i++ {
		op := c19Op{Kind: rapid.SampledFrom(kinds).Draw(t, "k")}
		switch op.Kind {
		case "mkdir":
			op.Path = rapid.SampledFrom(c19Paths).Draw(t, "p")
			op.Parents = rapid.Bool().Draw(t, "parents")
		case "create":
			dirs := append([]string{""}, listAll(true, false)...)
			op.Path = rapid.SampledFrom(dirs).Draw(t, "dir") + "/" + rapid.SampledFrom([]string{"f", "g", "x", "b"}).Draw(t, "name")
		case "write", "truncate":
			op.Path = pick(t, listAll(false, true), "p")
			op.Size = rapid.SampledFrom([]int{0, 1, 9, 40}).Draw(t, "size")
		case "mv":
			op.Path = pick(t, listAll(true, true), "p")
			dirs := append([]string{""}, listAll(true, false)...)
			switch rapid.IntRange(0, 3).Draw(t, "dstkind") {
			case 0:
				op.Dst = rapid.SampledFrom(dirs).Draw(t, "dstdir") + "/"
			case 1:
				op.Dst = rapid.SampledFrom(dirs).Draw(t, "dstdir") + "/" + gopath.Base(op.Path)
			case 2:
				op.Dst = rapid.SampledFrom(dirs).Draw(t, "dstdir") + "/" + rapid.SampledFrom([]string{"f", "g", "x", "b"}).Draw(t, "dstname")
			default:
				op.Dst = pick(t, listAll(true, true), "dst")
			}
		case "rm", "chmod", "touch", "lookup":
			op.Path = pick(t, listAll(true, true), "p")
		case "list":
			op.Path = pick(t, append([]string{"/"}, listAll(true, false)...), "p")
		case "flush":
			op.Path = pick(t, append([]string{"/", "/"}, listAll(true, true)...), "p")
		case "sleep":
			op.DurMS = rapid.SampledFrom([]int{1, 300, 3000, 10000}).Draw(t, "d")
		}
		if !c19Degenerate(op) {
			gm.apply(op, []byte("x"))
		}
		c.Ops = append(c.Ops, op)
	}
	switch rapid.IntRange(0, 2).Draw(t, "shard") {
	case 1:
		c.MaxLinks, c.Fanout = rapid.IntRange(1, 3).Draw(t, "maxlinks"), 8
	case 2:
		c.ShardBytes, c.Fanout = rapid.SampledFrom([]int{1, 60, 120}).Draw(t, "shardbytes"), 8
	}
	c.Sparse = rapid.Bool().Draw(t, "sparse")
	c.Cfg = verifsim.GenConfig(t, 200, 60000, 10*time.Minute, nil)
	return c
}

// ---- model ----

type c19Node struct {
	dir      bool
	children map[string]*c19Node
	data     []byte
	// mode of a directory once Chmod has set it (0: never set, not compared)
	mode os.FileMode
}

func c19NewDir() *c19Node { return &c19Node{dir: true, children: map[string]*c19Node{}} }

func (n *c19Node) clone() *c19Node {
	c := &c19Node{dir: n.dir, data: append([]byte(nil), n.data...), mode: n.mode}
	if n.dir {
		c.children = map[string]*c19Node{}
		for k, v := range n.children {
			c.children[k] = v.clone()
		}
	}
	return c
}

func (n *c19Node) walk(p string) *c19Node {
	cur := n
	for _, s := range strings.Split(strings.Trim(p, "/"), "/") {
		if s == "" {
			continue
		}
		if cur == nil || !cur.dir {
			return nil
		}
		cur = cur.children[s]
	}
	return cur
}

func (n *c19Node) dump(prefix string, out *[]string) {
	var names []string
	for k := range n.children {
		names = append(names, k)
	}
	sort.Strings(names)
	for _, k := range names {
		ch := n.children[k]
		if ch.dir {
			*out = append(*out, prefix+"/"+k+"/"+c19ModeSuffix(ch.mode))
			ch.dump(prefix+"/"+k, out)
		} else {
			*out = append(*out, fmt.Sprintf("%s/%s=%q", prefix, k, ch.data))
		}
	}
}

// c19ModeSuffix renders a directory's permission bits when they have been set.
func c19ModeSuffix(m os.FileMode) string {
	if m&0xFFF == 0 {
		return ""
	}
	return fmt.Sprintf(" mode=%o", m&0xFFF)
}

var errC19Model = fmt.Errorf("model: operation is not possible")

// apply performs op on the model; it returns errC19Model if the model cannot
// perform it (then a successful MFS result would be a disagreement).
func (root *c19Node) apply(op c19Op, payload []byte) error {
	dirp, name := gopath.Split(strings.TrimRight(op.Path, "/"))
	parent := root.walk(dirp)
	switch op.Kind {
	case "mkdir":
		cur := root
		parts := strings.Split(strings.Trim(op.Path, "/"), "/")
		for i, s := range parts {
			if !cur.dir {
				return errC19Model
			}
			ch, ok := cur.children[s]
			last := i == len(parts)-1
			switch {
			case !ok && (last || op.Parents):
				ch = c19NewDir()
				cur.children[s] = ch
			case !ok:
				return errC19Model
			case last && !op.Parents:
				return errC19Model // exists
			case last && !ch.dir:
				return errC19Model
			}
			cur = ch
		}
		return nil
	case "create":
		if parent == nil || !parent.dir || name == "" || parent.children[name] != nil {
			return errC19Model
		}
		parent.children[name] = &c19Node{data: []byte{}}
		return nil
	case "write":
		f := root.walk(op.Path)
		if f == nil || f.dir {
			return errC19Model
		}
		f.data = append([]byte(nil), payload...)
		return nil
	case "truncate":
		f := root.walk(op.Path)
		if f == nil || f.dir {
			return errC19Model
		}
		if op.Size <= len(f.data) {
			f.data = f.data[:op.Size]
		} else {
			f.data = append(f.data, make([]byte, op.Size-len(f.data))...)
		}
		return nil
	case "rm":
		if parent == nil || !parent.dir || parent.children[name] == nil {
			return errC19Model
		}
		delete(parent.children, name)
		return nil
	case "chmod", "touch", "flush", "lookup":
		nd := root.walk(op.Path)
		if nd == nil {
			return errC19Model
		}
		if op.Kind == "chmod" && nd.dir && nd != root {
			nd.mode = 0o640
		}
		return nil
	case "list":
		if d := root.walk(op.Path); d == nil || !d.dir {
			return errC19Model
		}
		return nil
	case "mv":
		src := root.walk(op.Path)
		if src == nil || parent == nil || name == "" {
			return errC19Model
		}
		var dstDir *c19Node
		var dstName string
		if strings.HasSuffix(op.Dst, "/") {
			dstDir, dstName = root.walk(op.Dst), name
		} else {
			dd, dn := gopath.Split(op.Dst)
			dstDir, dstName = root.walk(dd), dn
		}
		if dstDir == nil || !dstDir.dir {
			return errC19Model
		}
		if ex := dstDir.children[dstName]; ex != nil {
			if ex.dir {
				dstDir, dstName = ex, name
				if dstDir.children[dstName] != nil {
					return errC19Model
				}
			}
			// an existing file is replaced
		}
		delete(parent.children, name)
		dstDir.children[dstName] = src
		return nil
	}
	return nil
}

// c19Degenerate excludes moves of an entry onto itself or of a directory into
// its own subtree, for which the statement defines no outcome.
func c19Degenerate(op c19Op) bool {
	if op.Kind != "mv" {
		return false
	}
	src := strings.TrimRight(op.Path, "/")
	dst := strings.TrimRight(op.Dst, "/")
	return dst == src || strings.HasPrefix(dst+"/", src+"/")
}

// ---- readers ----

func c19DumpMFS(ctx context.Context, d *Directory, prefix string, out *[]string) error {
	var entries []NodeListing
	if err := d.ForEachEntry(ctx, func(nl NodeListing) error { entries = append(entries, nl); return nil }); err != nil {
		return err
	}
	sort.Slice(entries, func(i, j int) bool { return entries[i].Name < entries[j].Name })
	for _, e := range entries {
		ch, err := d.Child(e.Name)
		if err != nil {
			return fmt.Errorf("%s/%s listed but Child failed: %w", prefix, e.Name, err)
		}
		switch c := ch.(type) {
		case *Directory:
			dm, err := c.Mode()
			if err != nil {
				return err
			}
			*out = append(*out, prefix+"/"+e.Name+"/"+c19ModeSuffix(dm))
			if err := c19DumpMFS(ctx, c, prefix+"/"+e.Name, out); err != nil {
				return err
			}
		case *File:
			fd, err := c.Open(ctx, Flags{Read: true})
			if err != nil {
				return err
			}
			b, err := io.ReadAll(fd)
			fd.Close()
			if err != nil {
				return err
			}
			*out = append(*out, fmt.Sprintf("%s/%s=%q", prefix, e.Name, b))
		}
	}
	return nil
}

func c19DumpDAG(ctx context.Context, ds ipld.DAGService, nd ipld.Node, prefix string, out *[]string) error {
	d, err := uio.NewDirectoryFromNode(ds, nd)
	if err != nil {
		return err
	}
	links, err := d.Links(ctx)
	if err != nil {
		return err
	}
	sort.Slice(links, func(i, j int) bool { return links[i].Name < links[j].Name })
	for _, l := range links {
		ch, err := ds.Get(ctx, l.Cid)
		if err != nil {
			return fmt.Errorf("%s/%s: %w", prefix, l.Name, err)
		}
		isDir := false
		var dirMode os.FileMode
		if pn, ok := ch.(*dag.ProtoNode); ok {
			if fsn, err := ft.FSNodeFromBytes(pn.Data()); err == nil && fsn.IsDir() {
				isDir = true
				dirMode = fsn.Mode()
			}
		}
		if isDir {
			*out = append(*out, prefix+"/"+l.Name+"/"+c19ModeSuffix(dirMode))
			if err := c19DumpDAG(ctx, ds, ch, prefix+"/"+l.Name, out); err != nil {
				return err
			}
		} else {
			r, err := uio.NewDagReader(ctx, ch, ds)
			if err != nil {
				return err
			}
			b, err := io.ReadAll(r)
			if err != nil {
				return err
			}
			*out = append(*out, fmt.Sprintf("%s/%s=%q", prefix, l.Name, b))
		}
	}
	return nil
}

func c19Run(t *testing.T, ci any, trace bool) *verifsim.Result {
	c := ci.(*c19Case)
	return verifsim.Run(t, c.Cfg, trace, func(s *verifsim.Sim) {
		ds := simdag.New(s, nil)
		ctx, cancel := context.WithCancel(context.Background())
		defer cancel()
		var published cid.Cid
		pf := func(ctx context.Context, k cid.Cid) error {
			s.Yield("publish")
			published = k
			return nil
		}
		var opts []Option
		if c.MaxLinks > 0 {
			opts = append(opts, WithMaxLinks(c.MaxLinks))
		}
		if c.Fanout > 0 {
			opts = append(opts, WithMaxHAMTFanout(c.Fanout))
		}
		if c.ShardBytes > 0 {
			opts = append(opts, WithHAMTShardingSize(c.ShardBytes))
		}
		root, err := NewEmptyRoot(ctx, ds, pf, nil, opts...)
		if err != nil {
			panic(err)
		}
		model := c19NewDir()
		// the republisher starts out with the initial root as "last published"
		if nd0, err := root.GetDirectory().GetNode(); err == nil {
			published = nd0.Cid()
		}

		compare := func(after string) bool {
			var got, want []string
			ds.Quiet = true
			err := c19DumpMFS(ctx, root.GetDirectory(), "", &got)
			ds.Quiet = false
			if err != nil {
				s.Failf("tree-unreadable", "after %s: walking the MFS tree failed: %v", after, err)
				return false
			}
			model.dump("", &want)
			if strings.Join(got, "\n") != strings.Join(want, "\n") {
				s.Failf("tree-mismatch", "after %s:\n  MFS:   %v\n  model: %v", after, got, want)
				return false
			}
			return true
		}
		comparePersisted := func(after string, nd ipld.Node) bool {
			var got, want []string
			ds.Quiet = true
			err := c19DumpDAG(ctx, ds, nd, "", &got)
			ds.Quiet = false
			if err != nil {
				s.Failf("persisted-unreadable", "after %s: reading the root DAG with the UnixFS readers failed: %v", after, err)
				return false
			}
			model.dump("", &want)
			if strings.Join(got, "\n") != strings.Join(want, "\n") {
				s.Failf("persisted-mismatch", "after %s the root DAG does not describe the model:\n  DAG:   %v\n  model: %v", after, got, want)
				return false
			}
			return true
		}

		s.Go("client", func() {
			for n, op := range c.Ops {
				if c19Degenerate(op) {
					continue
				}
				desc := fmt.Sprintf("op#%d %s %s", n, op.Kind, op.Path)
				if op.Kind == "mv" {
					desc += " -> " + op.Dst
				}
				s.Logf("%s", desc)
				payload := []byte(fmt.Sprintf("<w%d>", n))
				if op.Size > len(payload) {
					payload = append(payload, bytes.Repeat([]byte{'.'}, op.Size-len(payload))...)
				}
				var err error
				var flushed ipld.Node
				switch op.Kind {
				case "mkdir":
					err = Mkdir(root, op.Path, MkdirOpts{Mkparents: op.Parents, Flush: n%2 == 0})
				case "create":
					err = PutNode(root, op.Path, dag.NodeWithData(ft.FilePBData(nil, 0)))
				case "write", "truncate":
					var fsn FSNode
					fsn, err = Lookup(root, op.Path)
					if err == nil {
						fi, ok := fsn.(*File)
						if !ok {
							err = fmt.Errorf("not a file")
						} else {
							var fd FileDescriptor
							fd, err = fi.Open(ctx, Flags{Write: true, Sync: n%3 != 0})
							if err == nil {
								if op.Kind == "write" {
									if err = fd.Truncate(0); err == nil {
										_, err = fd.Write(payload)
									}
								} else {
									err = fd.Truncate(int64(op.Size))
								}
								if cerr := fd.Close(); err == nil {
									err = cerr
								}
							}
						}
					}
				case "mv":
					err = Mv(root, op.Path, op.Dst)
				case "rm":
					dirp, name := gopath.Split(op.Path)
					var pd *Directory
					pd, err = lookupDir(root, dirp)
					if err == nil {
						err = pd.Unlink(name)
					}
				case "chmod":
					err = Chmod(root, op.Path, os.FileMode(0o640))
				case "touch":
					err = Touch(root, op.Path, time.Unix(1700000000+int64(n), 0))
				case "flush":
					flushed, err = FlushPath(ctx, root, op.Path)
				case "flushmemfree":
					err = root.FlushMemFree(ctx)
				case "lookup":
					_, err = Lookup(root, op.Path)
				case "list":
					var fsn FSNode
					fsn, err = Lookup(root, op.Path)
					if err == nil {
						if d, ok := fsn.(*Directory); ok {
							_, err = d.ListNames(ctx)
						} else {
							err = fmt.Errorf("not a directory")
						}
					}
				case "sleep":
					time.Sleep(time.Duration(op.DurMS) * time.Millisecond)
				case "restart":
					if cerr := root.Close(); cerr != nil {
						s.Failf("close-failed", "%s: Root.Close failed: %v", desc, cerr)
						return
					}
					if !published.Defined() {
						s.Failf("nothing-published", "%s: Root.Close returned but the publish function never received a root", desc)
						return
					}
					ds.Quiet = true
					nd, gerr := ds.Get(ctx, published)
					ds.Quiet = false
					if gerr != nil {
						s.Failf("published-root-missing", "%s: the published root %s is not in the DAG service: %v", desc, published, gerr)
						return
					}
					if !comparePersisted(desc+" (published root after Close)", nd) {
						return
					}
					root, err = NewRoot(ctx, ds, nd.(*dag.ProtoNode), pf, nil, opts...)
					if err != nil {
						s.Failf("reopen-failed", "%s: NewRoot on the published root failed: %v", desc, err)
						return
					}
				}
				if op.Kind != "sleep" && op.Kind != "restart" && op.Kind != "flushmemfree" {
					if err == nil {
						if merr := model.apply(op, payload); merr != nil {
							s.Failf("unexpected-success", "%s succeeded, but in the tree model this operation is impossible", desc)
							return
						}
					} else {
						probe := model.clone()
						if probe.apply(op, payload) == nil {
							s.Probe("mfs-refused-what-the-model-allows")
						}
						s.Logf("%s failed: %v", desc, err)
					}
				}
				if c.Sparse && op.Kind != "lookup" && op.Kind != "list" && op.Kind != "flush" && op.Kind != "flushmemfree" && op.Kind != "restart" {
					continue
				}
				if !compare(desc + fmt.Sprintf(" (err=%v)", err)) {
					return
				}
				if flushed != nil && op.Path == "/" {
					if !comparePersisted(desc, flushed) {
						return
					}
				}
			}
			// final: flush everything and compare the persisted tree
			nd, err := FlushPath(ctx, root, "/")
			if err != nil {
				s.Failf("flush-failed", "final FlushPath(/): %v", err)
				return
			}
			comparePersisted("final FlushPath(/)", nd)
		})
		done := s.Loop()
		if !done && s.DeadlockSeen() {
			s.Failf("harness-deadlock", "client blocked forever:\n%s", verifsim.StuckStacks())
		}
		s.Drain()
		cerr := make(chan error, 1)
		go func() { cerr <- root.Close() }()
		select {
		case <-cerr:
		case <-time.After(time.Minute):
		}
	})
}

func TestVerifC19(t *testing.T) {
	verifsim.Main(t, verifsim.Harness{
		Property: "C19",
		Name:     "mfs-tree-model",
		Gen:      c19Gen,
		New:      func() any { return &c19Case{} },
		Run:      c19Run,
		Sample: func(c any) any {
			cc := *c.(*c19Case)
			cc.Cfg.Tape = nil
			return cc
		},
	})
}
