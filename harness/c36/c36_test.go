package decision

// C36 — the server sends only wanted, present, permitted data and bounds its
// queues. Real: decision.Engine with task workers, blockstore manager, peer
// ledger, score ledger, go-peertaskqueue, default blockstore. Simulated: the
// peers (tasks feeding MessageReceived), the local block source (a task that
// stores / removes blocks and calls NotifyNewBlocks), the network side of the
// server (a consumer taking envelopes from the outbox, calling MessageSent and
// Sent), the datastore (simds), the clock (thaw ticker), the scheduler.

import (
	"context"
	"fmt"
	"sort"
	"testing"
	"time"

	bsmsg "github.com/ipfs/boxo/bitswap/message"
	pb "github.com/ipfs/boxo/bitswap/message/pb"
	"github.com/ipfs/boxo/blockstore"
	"github.com/ipfs/boxo/internal/verifsim"
	"github.com/ipfs/boxo/internal/verifsim/simds"
	blocks "github.com/ipfs/go-block-format"
	cid "github.com/ipfs/go-cid"
	"github.com/libp2p/go-libp2p/core/peer"
	mh "github.com/multiformats/go-multihash"
	"pgregory.net/rapid"
)

type c36Entry struct {
	Block    int  `json:"b"` // pool index; -1 identity CID; -2 oversize CID
	Prio     int  `json:"p"`
	Block_   bool `json:"wb"` // want-block (else want-have)
	Cancel   bool `json:"c,omitempty"`
	DontHave bool `json:"d,omitempty"`
}

type c36Msg struct {
	Full    bool       `json:"full,omitempty"`
	Entries []c36Entry `json:"e"`
	SleepMS int        `json:"sleep_ms,omitempty"`
}

type c36StoreOp struct {
	Kind    string `json:"k"` // add remove
	Block   int    `json:"b"`
	SleepMS int    `json:"sleep_ms,omitempty"`
}

type c36Case struct {
	Cfg         verifsim.Config `json:"cfg"`
	Limit       int             `json:"limit"`
	ReplaceSize int             `json:"replace_size"`
	TaskWorkers int             `json:"task_workers"`
	Blocks      int             `json:"blocks"`
	Big         []bool          `json:"big"`
	Present     []bool          `json:"present"`
	Denied      [][]int         `json:"denied"` // per peer: blocks the filter refuses
	Peers       [][]c36Msg      `json:"peers"`
	Store       []c36StoreOp    `json:"store"`
}

func c36Gen(t *rapid.T, tier string) any {
	c := &c36Case{}
	maxBlocks, maxMsgs, maxEntries, maxLimit := 8, 5, 6, 6
	if tier == "thorough" {
		maxBlocks, maxMsgs, maxEntries, maxLimit = 16, 12, 12, 32
	}
	limits := []int{1, 2, 3, 4, 6, 8, 12}
	if maxLimit > 12 {
		limits = append(limits, 16, 32)
	}
	c.Limit = rapid.SampledFrom(limits).Draw(t, "limit")
	c.ReplaceSize = rapid.SampledFrom([]int{0, 64, 1024}).Draw(t, "replace")
	c.TaskWorkers = rapid.IntRange(1, 3).Draw(t, "workers")
	c.Blocks = rapid.IntRange(1, maxBlocks).Draw(t, "blocks")
	for i := 0; i < c.Blocks; i++ {
		c.Big = append(c.Big, rapid.Bool().Draw(t, "big"))
		c.Present = append(c.Present, rapid.IntRange(0, 2).Draw(t, "present") > 0)
	}
	np := rapid.IntRange(1, 3).Draw(t, "peers")
	blk := rapid.IntRange(0, c.Blocks-1)
	for p := 0; p < np; p++ {
		var den []int
		if rapid.IntRange(0, 2).Draw(t, "hasdenied") == 0 {
			den = rapid.SliceOfNDistinct(blk, 0, 2, rapid.ID[int]).Draw(t, "denied")
		}
		c.Denied = append(c.Denied, den)
		nm := rapid.IntRange(1, maxMsgs).Draw(t, "nmsgs")
		var msgs []c36Msg
		for m := 0; m < nm; m++ {
			msg := c36Msg{Full: rapid.IntRange(0, 5).Draw(t, "full") == 0}
			ne := rapid.IntRange(1, maxEntries).Draw(t, "nentries")
			for e := 0; e < ne; e++ {
				en := c36Entry{Block: blk.Draw(t, "eb")}
				switch rapid.IntRange(0, 19).Draw(t, "special") {
				case 0:
					en.Block = -1
				case 1:
					en.Block = -2
				}
				en.Prio = rapid.IntRange(1, 6).Draw(t, "prio")
				en.Block_ = rapid.Bool().Draw(t, "wb")
				en.Cancel = rapid.IntRange(0, 4).Draw(t, "cancel") == 0
				en.DontHave = rapid.Bool().Draw(t, "dh")
				msg.Entries = append(msg.Entries, en)
			}
			msg.SleepMS = rapid.SampledFrom([]int{0, 0, 1, 50, 150, 400}).Draw(t, "msleep")
			msgs = append(msgs, msg)
		}
		c.Peers = append(c.Peers, msgs)
	}
	ns := rapid.IntRange(0, maxMsgs).Draw(t, "nstore")
	for i := 0; i < ns; i++ {
		op := c36StoreOp{Kind: rapid.SampledFrom([]string{"add", "add", "remove"}).Draw(t, "sk"), Block: blk.Draw(t, "sb")}
		op.SleepMS = rapid.SampledFrom([]int{0, 0, 1, 50, 150, 400}).Draw(t, "ssleep")
		c.Store = append(c.Store, op)
	}
	c.Cfg = verifsim.GenConfig(t, 800, 40000, 10*time.Second, []time.Duration{time.Millisecond, 100 * time.Millisecond, time.Second})
	return c
}

func c36Block(i int, big bool) blocks.Block {
	n := 40
	if big {
		n = 3000
	}
	b := make([]byte, n)
	x := uint32(i*2654435761 + 41)
	for k := range b {
		x = x*1664525 + 1013904223
		b[k] = byte(x >> 24)
	}
	h, _ := mh.Sum(b, mh.SHA2_256, -1)
	blk, _ := blocks.NewBlockWithCid(b, cid.NewCidV1(cid.Raw, h))
	return blk
}

func c36Peer(i int) peer.ID {
	h, _ := mh.Sum([]byte(fmt.Sprintf("c36-peer-%d", i)), mh.IDENTITY, -1)
	return peer.ID(h)
}

type c36Tagger struct{}

func (c36Tagger) TagPeer(peer.ID, string, int) {}
func (c36Tagger) UntagPeer(peer.ID, string)    {}

// presence history of one block: seqs at which it changed, starting absent at 0
type c36Hist struct{ changes []int64 } // toggles; even index = became present

func (h *c36Hist) set(seq int64, present bool) {
	cur := len(h.changes)%2 == 1
	if cur != present {
		h.changes = append(h.changes, seq)
	}
}

// presentDuring reports whether the block was present at some moment in [from, to].
func (h *c36Hist) presentDuring(from, to int64) bool {
	for i := 0; i < len(h.changes); i += 2 {
		start := h.changes[i]
		end := int64(1 << 62)
		if i+1 < len(h.changes) {
			end = h.changes[i+1]
		}
		if start <= to && end >= from {
			return true
		}
	}
	return false
}

// absentDuring reports whether the block was absent at some moment in [from, to].
func (h *c36Hist) absentDuring(from, to int64) bool {
	start := int64(0) // start of an absent interval
	for i := 0; i < len(h.changes); i += 2 {
		end := h.changes[i] // became present
		if start < end && start <= to && end >= from {
			return true
		}
		if i+1 >= len(h.changes) {
			return false // present until the end
		}
		start = h.changes[i+1]
	}
	return start <= to
}

func (h *c36Hist) now() bool { return len(h.changes)%2 == 1 }

type c36PC struct {
	firstWant     int64 // seq of the first MessageReceived (start) carrying a want for (p,c)
	lastWant      int64 // start seq of the latest want
	firstDHWant   int64 // first want with SendDontHave
	wants         int   // number of messages that carried a want for (p,c)
	lastAnswer    int64 // seq of the latest block / HAVE / DONT_HAVE sent for (p,c)
	lastSentDone  int64 // seq at which MessageSent returned for the latest answer
	blocksSent    int
	lastWantWasDH bool
	// shed: the task that answers the latest want (or the latest announcement of
	// the block) was pushed while the peer's task queue held, or was about to
	// hold, as many tasks as the want-list limit allows: the task queue drops
	// what exceeds the limit (load shedding; see the known finding)
	shed     bool
	subsumed bool
}

func c36Run(t *testing.T, ci any, trace bool) *verifsim.Result {
	c := ci.(*c36Case)
	return verifsim.Run(t, c.Cfg, trace, func(s *verifsim.Sim) {
		ctx, cancelAll := context.WithCancel(context.Background())
		pool := make([]blocks.Block, c.Blocks)
		index := map[string]int{}
		// hist: "may be present" (from the start of an add to the end of a remove);
		// must: "is certainly present" (from the end of an add to the start of a remove)
		hist := make([]*c36Hist, c.Blocks)
		must := make([]*c36Hist, c.Blocks)
		notifies := make([]int, c.Blocks)
		for i := range pool {
			pool[i] = c36Block(i, c.Big[i])
			index[pool[i].Cid().KeyString()] = i
			hist[i] = &c36Hist{}
			must[i] = &c36Hist{}
		}
		d := simds.New(s, "ds", nil)
		d.Quiet = true
		d.IgnoreCtx = true
		bs := blockstore.NewBlockstore(d)
		for i, b := range pool {
			if c.Present[i] {
				if err := bs.Put(ctx, b); err != nil {
					panic(err)
				}
				hist[i].set(0, true)
				must[i].set(0, true)
			}
		}
		d.Quiet = false
		peers := make([]peer.ID, len(c.Peers))
		pidx := map[peer.ID]int{}
		denied := map[string]bool{}
		for i := range c.Peers {
			peers[i] = c36Peer(i)
			pidx[peers[i]] = i
			for _, b := range c.Denied[i] {
				if b < c.Blocks {
					denied[fmt.Sprintf("%d/%d", i, b)] = true
				}
			}
		}
		filter := func(p peer.ID, k cid.Cid) bool {
			b, ok := index[k.KeyString()]
			return !ok || !denied[fmt.Sprintf("%d/%d", pidx[p], b)]
		}
		e := NewEngine(ctx, bs, c36Tagger{}, c36Peer(99),
			WithMaxQueuedWantlistEntriesPerPeer(uint(c.Limit)),
			WithWantHaveReplaceSize(c.ReplaceSize),
			WithTaskWorkerCount(c.TaskWorkers),
			WithBlockstoreWorkerCount(2),
			WithPeerBlockRequestFilter(filter))
		for _, p := range peers {
			e.PeerConnected(p)
		}
		idCid := func() cid.Cid {
			h, _ := mh.Sum([]byte("tiny"), mh.IDENTITY, -1)
			return cid.NewCidV1(cid.Raw, h)
		}()
		bigCid := func() cid.Cid {
			h, _ := mh.Sum(make([]byte, 300), mh.IDENTITY, -1)
			return cid.NewCidV1(cid.Raw, h)
		}()

		state := map[string]*c36PC{}
		pc := func(p, b int) *c36PC {
			k := fmt.Sprintf("%d/%d", p, b)
			if state[k] == nil {
				state[k] = &c36PC{}
			}
			return state[k]
		}

		// ---- consumer: the network side of the server ----
		consumerDone := false
		judge := func(env *Envelope) {
			now := s.Seq()
			p, ok := pidx[env.Peer]
			if !ok {
				s.Failf("unknown-recipient", "an envelope is addressed to %s, which never sent anything", env.Peer)
				return
			}
			for _, blk := range env.Message.Blocks() {
				b, ok := index[blk.Cid().KeyString()]
				if !ok {
					s.Failf("unknown-block-sent", "peer %d was sent a block %s that is not in the pool", p, blk.Cid())
					return
				}
				st := pc(p, b)
				s.Logf("sent block #%d to peer %d", b, p)
				if got, err := blk.Cid().Prefix().Sum(blk.RawData()); err != nil || !got.Equals(blk.Cid()) {
					s.Failf("block-bytes-mismatch", "peer %d was sent a block whose bytes do not hash to its CID (#%d)", p, b)
					return
				}
				if st.wants == 0 {
					s.Failf("unwanted-block-sent", "peer %d was sent block #%d, which it never asked for", p, b)
					return
				}
				if denied[fmt.Sprintf("%d/%d", p, b)] {
					s.Failf("denied-block-sent", "peer %d was sent block #%d although the request filter refuses it", p, b)
					return
				}
				if !hist[b].presentDuring(st.firstWant, now) {
					s.Failf("absent-block-sent", "peer %d was sent block #%d, which was not in the blockstore at any moment since the peer first asked for it", p, b)
					return
				}
				st.blocksSent++
				if st.blocksSent > st.wants+notifies[b] {
					s.Failf("block-sent-too-often", "peer %d was sent block #%d %d times for %d want messages (and %d announcements of the block)", p, b, st.blocksSent, st.wants, notifies[b])
					return
				}
				st.lastAnswer = now
			}
			for _, bp := range env.Message.BlockPresences() {
				b, ok := index[bp.Cid.KeyString()]
				if !ok {
					s.Failf("unknown-presence-sent", "peer %d was sent a block presence for %s, which is not in the pool", p, bp.Cid)
					return
				}
				st := pc(p, b)
				if st.wants == 0 {
					s.Failf("unwanted-presence-sent", "peer %d was sent a block presence for #%d, which it never asked about", p, b)
					return
				}
				if bp.Type == pb.Message_Have {
					s.Logf("sent HAVE #%d to peer %d", b, p)
					if denied[fmt.Sprintf("%d/%d", p, b)] {
						s.Failf("denied-have-sent", "peer %d was sent HAVE for #%d although the request filter refuses it", p, b)
						return
					}
					if !hist[b].presentDuring(st.firstWant, now) {
						s.Failf("have-for-absent-block", "peer %d was sent HAVE for block #%d, which was not in the blockstore at any moment since the peer first asked for it", p, b)
						return
					}
				} else {
					s.Logf("sent DONT_HAVE #%d to peer %d", b, p)
					if st.firstDHWant == 0 {
						s.Failf("unrequested-dont-have", "peer %d was sent DONT_HAVE for #%d but never asked for DONT_HAVE", p, b)
						return
					}
					if !denied[fmt.Sprintf("%d/%d", p, b)] && !must[b].absentDuring(st.firstDHWant, now) {
						s.Failf("dont-have-for-present-block", "peer %d was sent DONT_HAVE for block #%d, which was in the blockstore the whole time since the peer asked", p, b)
						return
					}
				}
				st.lastAnswer = now
			}
		}
		s.GoBG("consumer", func() {
			defer func() { consumerDone = true }()
			for next := range e.Outbox() {
				s.Yield("consumer.next")
				env, ok := <-next
				if !ok {
					continue
				}
				if s.Failed() {
					env.Sent()
					continue
				}
				judge(env)
				s.Yield("consumer.sent")
				e.MessageSent(env.Peer, env.Message)
				// MessageSent removes the wants it answers from the ledger, also a want
				// that was renewed after the envelope had been built (the engine documents
				// this race); for the overflow rules such a want counts as answered
				if p, ok := pidx[env.Peer]; ok {
					now := s.Seq()
					for _, blk := range env.Message.Blocks() {
						if b, ok := index[blk.Cid().KeyString()]; ok {
							pc(p, b).lastSentDone = now
						}
					}
					for _, bp := range env.Message.BlockPresences() {
						if b, ok := index[bp.Cid.KeyString()]; ok {
							pc(p, b).lastSentDone = now
						}
					}
				}
				env.Sent()
				// Until Sent has been called the engine treats the answer as in flight and
				// merges a renewed want for the same CID into it: the answer covers every
				// want that arrived before this point.
				if p, ok := pidx[env.Peer]; ok {
					now := s.Seq()
					for _, blk := range env.Message.Blocks() {
						if b, ok := index[blk.Cid().KeyString()]; ok {
							pc(p, b).lastAnswer = now
						}
					}
					for _, bp := range env.Message.BlockPresences() {
						if b, ok := index[bp.Cid.KeyString()]; ok {
							pc(p, b).lastAnswer = now
						}
					}
				}
			}
		})

		// ---- peers ----
		// highest number of tasks (waiting or taken) a peer's queue held while one of
		// its messages was being processed, sampled at every scheduling step
		inCall := map[int]bool{}
		maxTasks := map[int]int{}
		s.OnStep(func() {
			for pi, on := range inCall {
				if !on {
					continue
				}
				if tp := e.peerRequestQueue.PeerTopics(peers[pi]); tp != nil {
					if n := len(tp.Pending) + len(tp.Active); n > maxTasks[pi] {
						maxTasks[pi] = n
					}
				}
			}
		})
		for pi, msgs := range c.Peers {
			pi, msgs := pi, msgs
			s.Go(fmt.Sprintf("peer%d", pi), func() {
				for mi, m := range msgs {
					if m.SleepMS > 0 {
						time.Sleep(time.Duration(m.SleepMS) * time.Millisecond)
					}
					msg := bsmsg.New(m.Full)
					start := s.Seq()
					effective := map[int]c36Entry{} // what the message says per block (last entry wins like the message type does)
					for _, en := range m.Entries {
						var k cid.Cid
						switch en.Block {
						case -1:
							k = idCid
						case -2:
							k = bigCid
						default:
							k = pool[en.Block].Cid()
						}
						if en.Cancel {
							msg.Cancel(k)
						} else {
							wt := pb.Message_Wantlist_Have
							if en.Block_ {
								wt = pb.Message_Wantlist_Block
							}
							msg.AddEntry(k, int32(en.Prio), wt, en.DontHave)
						}
					}
					for _, en := range msg.Wantlist() {
						b, ok := index[en.Cid.KeyString()]
						if !ok {
							continue
						}
						effective[b] = c36Entry{Block: b, Prio: int(en.Priority), Block_: en.WantType == pb.Message_Wantlist_Block, Cancel: en.Cancel, DontHave: en.SendDontHave}
					}
					var before []int
					beforePrio := map[int]int{}
					for _, w := range e.WantlistForPeer(peers[pi]) {
						if b, ok := index[w.Cid.KeyString()]; ok {
							before = append(before, b)
							beforePrio[b] = int(w.Priority)
						}
					}
					// task-queue pressure: tasks pending for the peer plus the tasks this
					// message can produce, against the limit the queue is truncated to
					pending := 0
					if tp := e.peerRequestQueue.PeerTopics(peers[pi]); tp != nil {
						pending = len(tp.Pending)
					}
					npush := 0
					for _, en := range effective {
						if !en.Cancel {
							npush++
						}
					}
					pressure := pending+npush > c.Limit
					if pressure {
						s.Probe("task-queue-at-limit")
					}
					for b, en := range effective {
						if !en.Cancel {
							st := pc(pi, b)
							st.shed = pressure
							// a want that asks for DONT_HAVE while an earlier want for the same
							// CID that did not ask for it is still unanswered (known finding)
							st.subsumed = st.wants > 0 && st.lastAnswer < st.lastWant && !st.lastWantWasDH && en.DontHave
							if st.firstWant == 0 {
								st.firstWant = start
							}
							st.lastWant = start
							st.wants++
							st.lastWantWasDH = en.DontHave
							if en.DontHave && st.firstDHWant == 0 {
								st.firstDHWant = start
							}
						}
					}
					storeSeqBefore := s.Seq()
					s.Logf("peer %d msg#%d full=%v %s", pi, mi, m.Full, c36Describe(msg, index))
					inCall[pi], maxTasks[pi] = true, 0
					if e.MessageReceived(ctx, peers[pi], msg) {
						s.Failf("connection-killed", "MessageReceived asked to close the connection of peer %d for a well-formed message", pi)
						return
					}
					inCall[pi] = false
					storeSeqAfter := s.Seq()
					// tasks pushed by NotifyNewBlocks while the call was in progress count too:
					// after the call, and at their highest while it ran (a task that was taken
					// and finished during the call still shortened what this call could push)
					during := maxTasks[pi]
					if tp := e.peerRequestQueue.PeerTopics(peers[pi]); tp != nil && len(tp.Pending)+len(tp.Active) > during {
						during = len(tp.Pending) + len(tp.Active)
					}
					if during+npush > c.Limit && !pressure {
						s.Probe("task-queue-at-limit")
						for b, en := range effective {
							if !en.Cancel {
								pc(pi, b).shed = true
							}
						}
					}
					after := e.WantlistForPeer(peers[pi])
					{
						var as []int
						for _, w := range after {
							if b, ok := index[w.Cid.KeyString()]; ok {
								as = append(as, b)
							}
						}
						sort.Ints(as)
						bs := append([]int(nil), before...)
						sort.Ints(bs)
						s.Logf("peer %d msg#%d ledger %v -> %v", pi, mi, bs, as)
					}
					if m.Full {
						// a full want-list replaces the old one: nothing the message does not
						// itself ask for may remain queued for the peer (its messages are
						// delivered one after the other, nobody else adds wants for it)
						for _, w := range after {
							b, ok := index[w.Cid.KeyString()]
							if !ok {
								continue
							}
							if en, asked := effective[b]; !asked || en.Cancel {
								s.Failf("full-wantlist-kept-old-want", "after the full want-list message #%d of peer %d (%s) the peer's queued want-list still has block #%d, which that message does not ask for", mi, pi, c36Describe(msg, index), b)
								return
							}
						}
					}
					// a cancel takes the want off the peer's current want-list, whatever else
					// the message carries (the peer's messages are delivered one after the
					// other and only they add wants for it)
					for _, w := range after {
						if b, ok := index[w.Cid.KeyString()]; ok {
							if en, asked := effective[b]; asked && en.Cancel {
								s.Failf("cancelled-want-kept", "after message #%d of peer %d (%s), which cancels block #%d, the peer's queued want-list still has it", mi, pi, c36Describe(msg, index), b)
								return
							}
						}
					}
					if len(after) > c.Limit {
						s.Failf("wantlist-over-limit", "after message #%d of peer %d its queued want-list has %d entries, the limit is %d", mi, pi, len(after), c.Limit)
						return
					}
					// ---- overflow dominance, judged only when the store did not change during the call ----
					stable := true
					storeSeqAfter = s.Seq() // the ledger was read after the call: the window ends here
					for b := range hist {
						for _, ch := range append(append([]int64(nil), hist[b].changes...), must[b].changes...) {
							if ch >= storeSeqBefore && ch <= storeSeqAfter {
								stable = false
							}
						}
					}
					nwants := 0
					for b, en := range effective {
						if !en.Cancel && !denied[fmt.Sprintf("%d/%d", pi, b)] {
							nwants++
						}
					}
					s.Logf("peer %d msg#%d stable=%v nwants=%d window=[%d,%d]", pi, mi, stable, nwants, storeSeqBefore, storeSeqAfter)
					if !stable || nwants > c.Limit || m.Full {
						continue
					}
					afterSet := map[int]bool{}
					for _, w := range after {
						if b, ok := index[w.Cid.KeyString()]; ok {
							afterSet[b] = true
						}
					}
					answered := func(b int) bool { // a want that was answered meanwhile legitimately left the ledger
						st := pc(pi, b)
						return st.lastAnswer >= start || st.lastSentDone >= start
					}
					for b, en := range effective {
						if en.Cancel || denied[fmt.Sprintf("%d/%d", pi, b)] || afterSet[b] || answered(b) {
							continue
						}
						// newcomer (or renewed want) b was rejected: no retained older want may
						// lack its block, or have a lower priority
						for _, ob := range before {
							if !afterSet[ob] || ob == b {
								continue
							}
							if oe, again := effective[ob]; again && !oe.Cancel {
								continue // renewed by this very message: not an "older" want
							}
							// The statement ranks wants by "has a local block" first and by
							// priority second; which of two equally ranked wants goes is open.
							newHas, oldHas := must[b].now(), hist[ob].now()
							if newHas && !oldHas {
								s.Failf("overflow-kept-blockless-want", "peer %d message #%d: want for #%d (priority %d, block in the store) was rejected for lack of room while the older want for #%d, whose block is not in the store, was kept (limit %d)", pi, mi, b, en.Prio, ob, c.Limit)
								return
							}
							if newHas == oldHas && beforePrio[ob] < en.Prio {
								s.Failf("overflow-kept-lower-priority", "peer %d message #%d: want for #%d with priority %d was rejected for lack of room while the older want for #%d with priority %d was kept (both blocks %s; limit %d)", pi, mi, b, en.Prio, ob, beforePrio[ob], map[bool]string{true: "in the store", false: "absent"}[newHas], c.Limit)
								return
							}
						}
					}
				}
			})
		}
		// ---- local block source ----
		if len(c.Store) > 0 {
			s.Go("store", func() {
				for _, op := range c.Store {
					if op.SleepMS > 0 {
						time.Sleep(time.Duration(op.SleepMS) * time.Millisecond)
					}
					switch op.Kind {
					case "add":
						s.Logf("store add #%d", op.Block)
						// present from the moment the write may have taken effect
						hist[op.Block].set(s.Seq(), true)
						if err := bs.Put(ctx, pool[op.Block]); err != nil {
							panic(err)
						}
						must[op.Block].set(s.Seq(), true)
						notifies[op.Block]++
						for pi, p := range peers {
							if tp := e.peerRequestQueue.PeerTopics(p); tp != nil && len(tp.Pending) >= c.Limit {
								pc(pi, op.Block).shed = true
								s.Probe("task-queue-at-limit")
							}
						}
						e.NotifyNewBlocks([]blocks.Block{pool[op.Block]})
						s.Fault("block-added")
					case "remove":
						s.Logf("store remove #%d", op.Block)
						must[op.Block].set(s.Seq(), false)
						if err := bs.DeleteBlock(ctx, pool[op.Block].Cid()); err != nil {
							panic(err)
						}
						// absent only once the delete has returned
						hist[op.Block].set(s.Seq(), false)
						s.Fault("block-removed")
					}
				}
			})
		}

		done := s.Loop()
		shutdown := func() {
			s.Drain()
			cancelAll()
			e.Close()
		}
		if s.Failed() || !done {
			if !done && !s.Failed() && s.DeadlockSeen() {
				s.Failf("deadlock", "the run stopped with tasks blocked and no timer pending:\n%s", verifsim.StuckStacks())
			}
			shutdown()
			return
		}
		// removedSince: a removal of block b started at or after seq (must[b] turns
		// false at the start of a removal)
		removedSince := func(b int, seq int64) bool {
			for i := 1; i < len(must[b].changes); i += 2 {
				if must[b].changes[i] >= seq {
					return true
				}
			}
			// ... or one that had started before and ended after it
			for i := 1; i < len(hist[b].changes); i += 2 {
				if hist[b].changes[i] >= seq {
					return true
				}
			}
			return false
		}
		// ---- settle: no more messages or store changes; every accepted want must be answered ----
		s.Settle(5 * time.Second)
		if s.Failed() {
			shutdown()
			return
		}
		for pi := range c.Peers {
			wl := e.WantlistForPeer(peers[pi])
			sort.Slice(wl, func(i, j int) bool { return wl[i].Cid.KeyString() < wl[j].Cid.KeyString() })
			for _, w := range wl {
				b, ok := index[w.Cid.KeyString()]
				if !ok {
					s.Failf("foreign-want-in-ledger", "peer %d's ledger holds %s, which is an identity or oversize CID that must be ignored", pi, w.Cid)
					shutdown()
					return
				}
				st := pc(pi, b)
				present := must[b].now()
				if denied[fmt.Sprintf("%d/%d", pi, b)] {
					s.Failf("denied-want-in-ledger", "peer %d's ledger holds a want for #%d, which the request filter refuses", pi, b)
					shutdown()
					return
				}
				if present {
					if st.shed {
						s.Failf("answer-shed-by-task-queue-limit", "peer %d still has a queued want for block #%d (want-block=%v), the block is in the store, and nothing was sent for it; the task that would have answered it was pushed while the peer's task queue was at its limit (%d)", pi, b, w.WantType == pb.Message_Wantlist_Block, c.Limit)
					} else if removedSince(b, st.firstWant) {
						s.Failf("want-never-answered-after-block-removal", "peer %d still has a queued want for block #%d (want-block=%v), the block is in the store, and nothing was sent for it; the block had been removed from the store and added again after the peer first asked for it", pi, b, w.WantType == pb.Message_Wantlist_Block)
					} else {
						s.Failf("want-never-answered", "peer %d still has a queued want for block #%d (want-block=%v), the block is in the store, and 5 s after the last event nothing was sent for it since the want arrived", pi, b, w.WantType == pb.Message_Wantlist_Block)
					}
					shutdown()
					return
				}
				if st.lastWantWasDH && st.lastAnswer < st.lastWant {
					if st.shed {
						s.Failf("answer-shed-by-task-queue-limit", "peer %d asked for DONT_HAVE for block #%d, the block is absent, and no answer was sent since its latest want; the task that would have answered it was pushed while the peer's task queue was at its limit (%d)", pi, b, c.Limit)
					} else if removedSince(b, st.firstWant) {
						s.Failf("want-never-answered-after-block-removal", "peer %d asked for DONT_HAVE for block #%d, the block is absent, and no answer was sent since its latest want; the block had been removed from the store after the peer first asked for it, while a task that believed it present was pending or in flight", pi, b)
					} else if st.subsumed {
						s.Failf("dont-have-subsumed-by-earlier-want", "peer %d asked for DONT_HAVE for block #%d while its earlier want for the same block, which had not asked for DONT_HAVE, was still unanswered; the block is absent and nothing was sent since", pi, b)
					} else {
						s.Failf("dont-have-never-sent", "peer %d asked for DONT_HAVE for block #%d, the block is absent, and 5 s after the last event no answer was sent since its latest want", pi, b)
					}
					shutdown()
					return
				}
			}
		}
		_ = consumerDone
		shutdown()
	})
}

func c36Describe(m bsmsg.BitSwapMessage, index map[string]int) string {
	out := ""
	es := m.Wantlist()
	sort.Slice(es, func(i, j int) bool { return es[i].Cid.KeyString() < es[j].Cid.KeyString() })
	for _, e := range es {
		b, ok := index[e.Cid.KeyString()]
		name := fmt.Sprintf("#%d", b)
		if !ok {
			name = "special"
		}
		kind := "h"
		if e.WantType == pb.Message_Wantlist_Block {
			kind = "b"
		}
		if e.Cancel {
			kind = "c"
		}
		out += fmt.Sprintf(" %s:%s/p%d", kind, name, e.Priority)
		if e.SendDontHave {
			out += "+d"
		}
	}
	return out
}

func TestVerifC36(t *testing.T) {
	verifsim.Main(t, verifsim.Harness{
		Property: "C36",
		Name:     "decision-engine",
		Gen:      c36Gen,
		New:      func() any { return &c36Case{} },
		Run:      c36Run,
		Sample: func(c any) any {
			cc := *c.(*c36Case)
			cc.Cfg.Tape = nil
			return cc
		},
	})
}
