package autoconf

// C45 — the autoconf cache survives interrupted writes.
//
// Real: autoconf.Client (fetch, validation, cache write, cleanup, GetCached) and
// the real os package on a real temporary directory. Simulated: the HTTP round
// tripper (no socket), the clock, and a file-system seam inside package os
// (os.VerifFSHook, added by the build-time overlay) that logs every mutating
// operation with its data. The logged operation sequence of the last update is
// cut at EVERY operation and at EVERY byte of every write; each crash state is
// materialised in a fresh directory and read with a new client.

import (
	"bytes"
	"context"
	"encoding/json"
	"fmt"
	"io"
	"net/http"
	"os"
	"path/filepath"
	"sort"
	"strconv"
	"strings"
	"testing"
	"time"

	"github.com/ipfs/boxo/internal/verifsim"
	"pgregory.net/rapid"
)

type c45Case struct {
	Cfg       verifsim.Config `json:"cfg"`
	Pads      []int           `json:"pads"`    // one entry per update (the last one is the interrupted update); value = padding bytes
	GapsMS    []int           `json:"gaps_ms"` // time between updates
	CacheSize int             `json:"cache_size"`
	ETag      bool            `json:"etag"`
	LastMod   bool            `json:"last_modified"`
}

func c45Gen(t *rapid.T, tier string) any {
	c := &c45Case{}
	n := rapid.IntRange(1, 4).Draw(t, "updates")
	maxPad := 300
	if tier == "thorough" {
		maxPad = 1500
	}
	for i := 0; i < n; i++ {
		c.Pads = append(c.Pads, rapid.IntRange(0, maxPad).Draw(t, "pad"))
		c.GapsMS = append(c.GapsMS, rapid.SampledFrom([]int{300, 300, 1000, 7200000}).Draw(t, "gap"))
	}
	c.CacheSize = rapid.IntRange(1, 3).Draw(t, "cachesize")
	c.ETag = rapid.Bool().Draw(t, "etag")
	c.LastMod = rapid.Bool().Draw(t, "lastmod")
	c.Cfg = verifsim.GenConfig(t, 0, 1000, time.Hour, nil)
	return c
}

func c45Config(k, pad int) []byte {
	cfg := map[string]any{
		"AutoConfVersion": 2025010100 + k,
		"AutoConfSchema":  SupportedAutoConfSchema,
		"AutoConfTTL":     86400,
		"SystemRegistry": map[string]any{
			"AminoDHT": map[string]any{"URL": "https://example.com/amino", "Description": "pad:" + strings.Repeat("x", pad)},
		},
		"DNSResolvers":       map[string]any{"eth.": []string{"https://dns.example.com/dns-query"}},
		"DelegatedEndpoints": map[string]any{},
	}
	b, _ := json.Marshal(cfg)
	return b
}

type c45RT struct {
	body []byte
	etag string
	lm   string
}

func (r *c45RT) RoundTrip(req *http.Request) (*http.Response, error) {
	h := http.Header{}
	if r.etag != "" {
		h.Set("ETag", r.etag)
	}
	if r.lm != "" {
		h.Set("Last-Modified", r.lm)
	}
	h.Set("Content-Type", "application/json")
	return &http.Response{StatusCode: 200, Status: "200 OK", Header: h, Body: io.NopCloser(bytes.NewReader(r.body)), Request: req, ProtoMajor: 1, ProtoMinor: 1}, nil
}

type c45FSOp struct {
	op, name, arg string
	data          []byte
}

// c45FS is the crash model: a map of files, mutated by logged operations.
type c45FS struct {
	files map[string][]byte
	pos   map[string]int
}

func (f *c45FS) clone() *c45FS {
	c := &c45FS{files: map[string][]byte{}, pos: map[string]int{}}
	for k, v := range f.files {
		c.files[k] = append([]byte(nil), v...)
	}
	for k, v := range f.pos {
		c.pos[k] = v
	}
	return c
}

const (
	c45OAppend = 0x400
	c45OTrunc  = 0x200
)

func (f *c45FS) apply(o c45FSOp, nbytes int) {
	switch o.op {
	case "open":
		flags, _ := strconv.Atoi(o.arg)
		cur, ok := f.files[o.name]
		if !ok || flags&c45OTrunc != 0 {
			cur = []byte{}
		}
		f.files[o.name] = cur
		f.pos[o.name] = 0
		if flags&c45OAppend != 0 {
			f.pos[o.name] = len(cur)
		}
	case "write":
		d := o.data
		if nbytes >= 0 && nbytes < len(d) {
			d = d[:nbytes]
		}
		cur := f.files[o.name]
		p := f.pos[o.name]
		if p > len(cur) {
			p = len(cur)
		}
		nw := append(append([]byte(nil), cur[:p]...), d...)
		if p+len(d) < len(cur) {
			nw = append(nw, cur[p+len(d):]...)
		}
		f.files[o.name] = nw
		f.pos[o.name] = p + len(d)
	case "rename":
		if v, ok := f.files[o.name]; ok {
			f.files[o.arg] = v
			delete(f.files, o.name)
		}
	case "remove":
		delete(f.files, o.name)
	}
}

func (f *c45FS) materialise(dir string) error {
	for name, data := range f.files {
		p := filepath.Join(dir, name)
		if err := os.MkdirAll(filepath.Dir(p), 0o755); err != nil {
			return err
		}
		if err := os.WriteFile(p, data, 0o600); err != nil {
			return err
		}
	}
	return nil
}

var c45Base string
var c45Counter int

func c45Dir() string {
	if c45Base == "" {
		d, err := os.MkdirTemp("", "verif-c45-")
		if err != nil {
			panic(err)
		}
		c45Base = d
	}
	c45Counter++
	d := filepath.Join(c45Base, fmt.Sprintf("r%d", c45Counter))
	if err := os.MkdirAll(d, 0o755); err != nil {
		panic(err)
	}
	return d
}

func c45Run(t *testing.T, ci any, trace bool) *verifsim.Result {
	c := ci.(*c45Case)
	runDir := c45Dir()
	defer os.RemoveAll(runDir)
	defer func() { os.VerifFSHook = nil }()
	fallback := &Config{AutoConfVersion: -7}
	newClient := func(dir string, rt http.RoundTripper) *Client {
		cl, err := NewClient(WithCacheDir(dir), WithURL("https://conf.example.org/autoconf.json"), WithHTTPClient(&http.Client{Transport: rt}),
			WithRefreshInterval(time.Nanosecond), WithCacheSize(c.CacheSize), WithFallback(func() *Config { return fallback }))
		if err != nil {
			panic(err)
		}
		return cl
	}
	return verifsim.Run(t, c.Cfg, trace, func(s *verifsim.Sim) {
		liveDir := filepath.Join(runDir, "live")
		os.MkdirAll(liveDir, 0o755)
		rt := &c45RT{}
		cl := newClient(liveDir, rt)
		var log []c45FSOp
		recording := false
		rel := func(p string) (string, bool) {
			r, err := filepath.Rel(liveDir, p)
			if err != nil || strings.HasPrefix(r, "..") {
				return "", false
			}
			return r, true
		}
		os.VerifFSHook = func(op, name, arg string, data []byte) error {
			if !recording {
				return nil
			}
			n, ok := rel(name)
			if !ok {
				return nil
			}
			o := c45FSOp{op: op, name: n, arg: arg, data: append([]byte(nil), data...)}
			if op == "rename" {
				if a, ok := rel(arg); ok {
					o.arg = a
				}
			}
			log = append(log, o)
			return nil
		}
		time.Sleep(100 * time.Millisecond)
		nUpd := len(c.Pads)
		var versions []int64
		var before *c45FS
		for k := 0; k < nUpd; k++ {
			time.Sleep(time.Duration(c.GapsMS[k]) * time.Millisecond)
			rt.body = c45Config(k, c.Pads[k])
			rt.etag, rt.lm = "", ""
			if c.ETag {
				rt.etag = fmt.Sprintf("\"v%d\"", k)
			}
			if c.LastMod {
				rt.lm = time.Now().UTC().Format(http.TimeFormat)
			}
			if k == nUpd-1 {
				// snapshot the directory before the update that will be interrupted
				before = &c45FS{files: map[string][]byte{}, pos: map[string]int{}}
				filepath.Walk(liveDir, func(p string, info os.FileInfo, err error) error {
					if err == nil && !info.IsDir() {
						r, _ := rel(p)
						b, _ := os.ReadFile(p)
						before.files[r] = b
					}
					return nil
				})
				recording = true
			}
			resp, err := cl.GetLatest(context.Background())
			recording = false
			if err != nil || resp == nil || resp.Config == nil {
				s.Failf("harness-update-failed", "update %d failed on a healthy file system: %v", k, err)
				return
			}
			versions = append(versions, int64(2025010100+k))
			s.Logf("update %d done: %d fs ops so far", k, len(log))
		}
		// what the live directory answers now (no crash)
		if got := newClient(liveDir, rt).GetCached(); got.AutoConfVersion != versions[nUpd-1] {
			s.Failf("wrong-cached-config", "after %d complete updates GetCached returns version %d, want %d", nUpd, got.AutoConfVersion, versions[nUpd-1])
			return
		}
		allowed := map[int64]bool{versions[nUpd-1]: true}
		if nUpd >= 2 {
			allowed[versions[nUpd-2]] = true
		} else {
			allowed[fallback.AutoConfVersion] = true
		}
		// complete configuration files as the finished update left them: during the
		// first update the fallback is right only as long as none of them is in place
		complete := map[string]bool{}
		filepath.Walk(liveDir, func(p string, info os.FileInfo, err error) error {
			if err == nil && !info.IsDir() && strings.HasPrefix(filepath.Base(p), "autoconf-") && strings.HasSuffix(p, ".json") {
				if b, err := os.ReadFile(p); err == nil {
					complete[string(b)] = true
				}
			}
			return nil
		})
		var desc []string
		for _, o := range log {
			desc = append(desc, fmt.Sprintf("%s %s %s(%dB)", o.op, o.name, o.arg, len(o.data)))
		}
		s.Logf("interrupted update ops: %s", strings.Join(desc, "; "))

		states := 0
		check := func(fs *c45FS, what string) bool {
			states++
			d := filepath.Join(runDir, fmt.Sprintf("crash%d", states))
			defer os.RemoveAll(d)
			if err := fs.materialise(d); err != nil {
				s.Failf("harness-io", "cannot materialise crash state: %v", err)
				return false
			}
			got := newClient(d, rt).GetCached()
			haveComplete := false
			for n, b := range fs.files {
				if strings.HasPrefix(filepath.Base(n), "autoconf-") && strings.HasSuffix(n, ".json") && complete[string(b)] {
					haveComplete = true
				}
			}
			if got == nil || !allowed[got.AutoConfVersion] || (got.AutoConfVersion == fallback.AutoConfVersion && haveComplete) {
				var names []string
				for n, b := range fs.files {
					names = append(names, fmt.Sprintf("%s(%dB)", n, len(b)))
				}
				sort.Strings(names)
				v := int64(0)
				if got != nil {
					v = got.AutoConfVersion
				}
				kind := "an unexpected version"
				if v == fallback.AutoConfVersion {
					kind = "the built-in fallback although a valid cached version exists"
				}
				s.Failf("cache-lost-after-crash", "process stopped %s; GetCached on the surviving files %v returned %s (version %d; allowed %v)", what, names, kind, v, c45Keys(allowed))
				return false
			}
			return true
		}
		cur := before.clone()
		if !check(cur, "before the update wrote anything") {
			return
		}
		for i, o := range log {
			if o.op == "write" {
				for nb := 1; nb < len(o.data); nb++ {
					part := cur.clone()
					part.apply(o, nb)
					if !check(part, fmt.Sprintf("inside fs op %d of %d (%s %s) after %d of %d bytes", i+1, len(log), o.op, o.name, nb, len(o.data))) {
						return
					}
				}
			}
			cur.apply(o, -1)
			if !check(cur, fmt.Sprintf("right after fs op %d of %d (%s %s %s)", i+1, len(log), o.op, o.name, o.arg)) {
				return
			}
		}
		s.FaultN("crash-cut", states)
	})
}

func c45Keys(m map[int64]bool) []int64 {
	var ks []int64
	for k := range m {
		ks = append(ks, k)
	}
	sort.Slice(ks, func(i, j int) bool { return ks[i] < ks[j] })
	return ks
}

func TestVerifC45(t *testing.T) {
	defer func() {
		if c45Base != "" {
			os.RemoveAll(c45Base)
		}
	}()
	verifsim.Main(t, verifsim.Harness{
		Property: "C45",
		Name:     "autoconf-cache-crash",
		Gen:      c45Gen,
		New:      func() any { return &c45Case{} },
		Run:      c45Run,
		Sample: func(c any) any {
			cc := *c.(*c45Case)
			cc.Cfg.Tape = nil
			return cc
		},
	})
}
