package bitswap

// C37 — the exchange delivers requested blocks exactly once and cleans up.
// Real: complete bitswap.New instances (client + server) for 2-6 nodes, real wire
// encoding, default blockstores. Simulated: the message network (simnet: seeded
// latency, FIFO links, disconnects losing in-flight messages, stalled receivers,
// send errors), the datastores (simds), content routing, the clock, the scheduler.

import (
	"bytes"
	"context"
	"fmt"
	"sort"
	"testing"
	"time"

	bsmsg "github.com/ipfs/boxo/bitswap/message"
	pb "github.com/ipfs/boxo/bitswap/message/pb"
	"github.com/ipfs/boxo/blockstore"
	"github.com/ipfs/boxo/exchange"
	"github.com/ipfs/boxo/internal/verifsim"
	"github.com/ipfs/boxo/internal/verifsim/simds"
	"github.com/ipfs/boxo/internal/verifsim/simnet"
	blocks "github.com/ipfs/go-block-format"
	cid "github.com/ipfs/go-cid"
	"github.com/libp2p/go-libp2p/core/peer"
	mh "github.com/multiformats/go-multihash"
	"pgregory.net/rapid"
)

type c37Req struct {
	Node        int    `json:"node"`
	Kind        string `json:"kind"` // getblock getblocks session
	Keys        []int  `json:"keys"`
	Keys2       []int  `json:"keys2,omitempty"` // second GetBlocks on the same session
	DelayMS     int    `json:"delay_ms"`
	CancelAfter int    `json:"cancel_after,omitempty"` // cancel after k received blocks
	CancelAtMS  int    `json:"cancel_at_ms,omitempty"` // cancel this long after the request was issued
	// CancelRacing: the cancelling task starts together with the request and does not
	// sleep, so the scheduler places the cancellation anywhere inside the call
	CancelRacing bool `json:"cancel_racing,omitempty"`
	// LongSession: the session lives under its own context, which outlives the
	// request's: cancelling the request must clean up on a session that stays open
	LongSession bool `json:"long_session,omitempty"`
}

type c37Chaos struct {
	AtMS  int    `json:"at_ms"`
	Kind  string `json:"kind"` // disconnect connect stall addblock
	A     int    `json:"a"`
	B     int    `json:"b"`
	DurMS int    `json:"dur_ms,omitempty"`
}

type c37Case struct {
	Cfg          verifsim.Config `json:"cfg"`
	Nodes        int             `json:"nodes"`
	Blocks       int             `json:"blocks"`
	BigBlocks    []bool          `json:"big_blocks"` // per block: 3 KiB (HAVE first) or 40 B (sent in place of HAVE)
	Place        [][]int         `json:"place"`      // per block: nodes holding it at the start
	FullMesh     bool            `json:"full_mesh"`
	Links        [][2]int        `json:"links,omitempty"`
	RoutingKnows bool            `json:"routing_knows"`
	Reqs         []c37Req        `json:"reqs"`
	Chaos        []c37Chaos      `json:"chaos,omitempty"`
	FailSends    []int           `json:"fail_sends,omitempty"`
	MinLatMS     int             `json:"min_lat_ms"`
	JitterMS     int             `json:"jitter_ms"`
	NetSeed      int             `json:"net_seed"`
	ProvSearchMS int             `json:"prov_search_ms"`
	RebroadcastS int             `json:"rebroadcast_s"`
	SimDontHave  bool            `json:"sim_dont_have"`
	QuietStores  bool            `json:"quiet_stores"`
	PhaseMS      int             `json:"phase_ms"`
	// Legacy lists nodes that are announced to their peers as not supporting HAVE /
	// DONT_HAVE (old protocol versions): the others send them want-blocks only and
	// time the answers out themselves
	Legacy []int `json:"legacy,omitempty"`
}

func c37Gen(t *rapid.T, tier string) any {
	c := &c37Case{}
	maxNodes, maxBlocks, maxReqs, maxChaos := 4, 8, 4, 4
	if tier == "thorough" {
		maxNodes, maxBlocks, maxReqs, maxChaos = 6, 30, 8, 10
	}
	c.Nodes = rapid.IntRange(2, maxNodes).Draw(t, "nodes")
	c.Blocks = rapid.IntRange(1, maxBlocks).Draw(t, "blocks")
	for b := 0; b < c.Blocks; b++ {
		c.BigBlocks = append(c.BigBlocks, rapid.Bool().Draw(t, "big"))
		var pl []int
		for n := 0; n < c.Nodes; n++ {
			if rapid.IntRange(0, 2).Draw(t, "holds") == 0 {
				pl = append(pl, n)
			}
		}
		c.Place = append(c.Place, pl)
	}
	c.FullMesh = rapid.IntRange(0, 2).Draw(t, "mesh") > 0
	if !c.FullMesh {
		for i := 0; i < c.Nodes; i++ {
			for j := i + 1; j < c.Nodes; j++ {
				if rapid.Bool().Draw(t, "link") {
					c.Links = append(c.Links, [2]int{i, j})
				}
			}
		}
	}
	c.RoutingKnows = rapid.Bool().Draw(t, "routing")
	nr := rapid.IntRange(1, maxReqs).Draw(t, "nreqs")
	key := rapid.IntRange(0, c.Blocks-1)
	for i := 0; i < nr; i++ {
		r := c37Req{Node: rapid.IntRange(0, c.Nodes-1).Draw(t, "rnode")}
		r.Kind = rapid.SampledFrom([]string{"getblock", "getblocks", "getblocks", "session"}).Draw(t, "rkind")
		if r.Kind == "getblock" {
			r.Keys = []int{key.Draw(t, "k")}
		} else {
			r.Keys = rapid.SliceOfN(key, 1, 6).Draw(t, "keys")
			if r.Kind == "session" && rapid.Bool().Draw(t, "second") {
				r.Keys2 = rapid.SliceOfN(key, 1, 4).Draw(t, "keys2")
			}
		}
		r.DelayMS = rapid.SampledFrom([]int{0, 0, 1, 30, 400, 3000}).Draw(t, "delay")
		switch rapid.IntRange(0, 3).Draw(t, "cancelmode") {
		case 0:
			r.CancelAfter = rapid.IntRange(1, 3).Draw(t, "cancelafter")
		case 1:
			r.CancelAtMS = rapid.SampledFrom([]int{0, 0, 1, 10, 60, 300, 1500, 9000}).Draw(t, "cancelat")
			r.CancelRacing = r.CancelAtMS == 0
		}
		if r.Kind == "session" {
			r.LongSession = rapid.Bool().Draw(t, "longsession")
		}
		c.Reqs = append(c.Reqs, r)
	}
	nc := rapid.IntRange(0, maxChaos).Draw(t, "nchaos")
	for i := 0; i < nc; i++ {
		ch := c37Chaos{AtMS: rapid.SampledFrom([]int{0, 1, 20, 80, 300, 1200, 5000}).Draw(t, "cat")}
		ch.Kind = rapid.SampledFrom([]string{"disconnect", "disconnect", "connect", "stall", "addblock"}).Draw(t, "ckind")
		ch.A = rapid.IntRange(0, c.Nodes-1).Draw(t, "ca")
		ch.B = rapid.IntRange(0, c.Nodes-1).Draw(t, "cb")
		if ch.Kind == "addblock" {
			ch.B = key.Draw(t, "cblock")
		}
		ch.DurMS = rapid.SampledFrom([]int{50, 700, 4000, 20000}).Draw(t, "cdur")
		c.Chaos = append(c.Chaos, ch)
	}
	if rapid.IntRange(0, 3).Draw(t, "sendfail") == 0 {
		c.FailSends = rapid.SliceOfNDistinct(rapid.IntRange(1, 40), 1, 3, rapid.ID[int]).Draw(t, "failsends")
	}
	c.MinLatMS = rapid.SampledFrom([]int{0, 1, 20, 150}).Draw(t, "minlat")
	c.JitterMS = rapid.SampledFrom([]int{0, 5, 80, 900}).Draw(t, "jitter")
	c.NetSeed = rapid.IntRange(0, 1<<20).Draw(t, "netseed")
	c.ProvSearchMS = rapid.SampledFrom([]int{1, 100, 1000}).Draw(t, "provsearch")
	c.RebroadcastS = rapid.SampledFrom([]int{2, 10, 60}).Draw(t, "rebroadcast")
	c.SimDontHave = rapid.Bool().Draw(t, "simdonthave")
	c.QuietStores = rapid.IntRange(0, 2).Draw(t, "quiet") > 0
	c.PhaseMS = rapid.SampledFrom([]int{100, 2000, 12000}).Draw(t, "phase")
	if rapid.IntRange(0, 3).Draw(t, "withlegacy") == 0 {
		c.Legacy = rapid.SliceOfNDistinct(rapid.IntRange(0, c.Nodes-1), 1, c.Nodes, rapid.ID[int]).Draw(t, "legacy")
	}
	c.Cfg = verifsim.GenConfig(t, 400, 60000, 10*time.Minute, []time.Duration{time.Millisecond, 50 * time.Millisecond, time.Second})
	return c
}

func c37Block(i int, big bool) blocks.Block {
	n := 40
	if big {
		n = 3000
	}
	b := make([]byte, n)
	x := uint32(i*2654435761 + 17)
	for k := range b {
		x = x*1664525 + 1013904223
		b[k] = byte(x >> 24)
	}
	h, _ := mh.Sum(b, mh.SHA2_256, -1)
	blk, _ := blocks.NewBlockWithCid(b, cid.NewCidV1(cid.Raw, h))
	return blk
}

// c37Router is the simulated content routing: it knows the current holders.
type c37Router struct {
	s       *verifsim.Sim
	knows   bool
	holders func(c cid.Cid) []int
	self    int
}

func (r *c37Router) FindProvidersAsync(ctx context.Context, c cid.Cid, max int) <-chan peer.AddrInfo {
	r.s.Yield("routing.find")
	var out []peer.AddrInfo
	if r.knows {
		for _, n := range r.holders(c) {
			if n != r.self {
				out = append(out, peer.AddrInfo{ID: simnet.PeerID(n)})
			}
		}
	}
	ch := make(chan peer.AddrInfo, len(out))
	for _, ai := range out {
		ch <- ai
	}
	close(ch)
	return ch
}

type c37LocalAdd struct {
	node, block int
	at          time.Duration
	racing      map[*c37Live]bool // requests of the node that were waiting for the block at that time
}

type c37Live struct {
	idx       int
	node      int
	want      map[string]int // distinct requested cid -> block index
	got       map[string]int
	gotAt     map[string]time.Duration
	closed    bool
	cancelled bool
	failed    error
	issued    bool
	issuedAt  time.Duration
	cancel    context.CancelFunc
	// a session request whose session has its own, longer-lived context
	long       bool
	endSession context.CancelFunc
	endedAt    time.Duration // when the request was cancelled
}

func c37Run(t *testing.T, ci any, trace bool) *verifsim.Result {
	c := ci.(*c37Case)
	return verifsim.Run(t, c.Cfg, trace, func(s *verifsim.Sim) {
		ctx, cancelAll := context.WithCancel(context.Background())
		net := simnet.New(s, c.NetSeed, time.Duration(c.MinLatMS)*time.Millisecond, time.Duration(c.JitterMS)*time.Millisecond)
		net.FailSends = c.FailSends
		pool := make([]blocks.Block, c.Blocks)
		index := map[string]int{}
		for i := range pool {
			pool[i] = c37Block(i, c.BigBlocks[i])
			index[pool[i].Cid().KeyString()] = i
		}
		holders := make([]map[int]bool, c.Blocks) // nodes that were given the block by the harness
		for i := range holders {
			holders[i] = map[int]bool{}
		}
		type node struct {
			bs    *Bitswap
			store blockstore.Blockstore
			ds    *simds.DS
			adapt *simnet.Node
		}
		nodes := make([]*node, c.Nodes)
		for i := range nodes {
			d := simds.New(s, fmt.Sprintf("ds%d", i), nil)
			d.Quiet = true
			d.IgnoreCtx = true
			st := blockstore.NewBlockstore(d)
			nodes[i] = &node{ds: d, store: st}
		}
		for b, pl := range c.Place {
			for _, n := range pl {
				if err := nodes[n].store.Put(ctx, pool[b]); err != nil {
					panic(err)
				}
				holders[b][n] = true
			}
		}
		for i, nd := range nodes {
			legacy := false
			for _, l := range c.Legacy {
				if l == i {
					legacy = true
				}
			}
			nd.adapt = net.Adapter(i, !legacy)
			rt := &c37Router{s: s, knows: c.RoutingKnows, self: i, holders: func(k cid.Cid) []int {
				var out []int
				if b, ok := index[k.KeyString()]; ok {
					for n := range holders[b] {
						out = append(out, n)
					}
				}
				sort.Ints(out)
				return out
			}}
			nd.bs = New(ctx, nd.adapt, rt, nd.store,
				ProviderSearchDelay(time.Duration(c.ProvSearchMS)*time.Millisecond),
				RebroadcastDelay(time.Duration(c.RebroadcastS)*time.Second),
				SetSimulateDontHavesOnTimeout(c.SimDontHave),
				// 128 blockstore workers per node (the default) put more than 256
				// goroutines into the run queue at start-up; the overflow goes through
				// the scheduler's global queue, whose polling phase depends on what the
				// runtime's own background goroutines did before: not replayable
				EngineBlockstoreWorkerCount(4))
			nd.ds.Quiet = c.QuietStores
		}
		if c.FullMesh {
			for i := 0; i < c.Nodes; i++ {
				for j := i + 1; j < c.Nodes; j++ {
					net.ConnectIdx(i, j)
				}
			}
		} else {
			for _, l := range c.Links {
				net.ConnectIdx(l[0], l[1])
			}
		}

		lives := make([]*c37Live, len(c.Reqs))
		var localAdds []c37LocalAdd
		receive := func(lv *c37Live, b blocks.Block, desc string) bool {
			k := b.Cid().KeyString()
			if _, ok := lv.want[k]; !ok {
				s.Failf("unrequested-block", "%s received block %s, which it did not request", desc, b.Cid())
				return false
			}
			if got, err := b.Cid().Prefix().Sum(b.RawData()); err != nil || !got.Equals(b.Cid()) {
				s.Failf("block-bytes-mismatch", "%s received a block whose bytes do not hash to its CID %s", desc, b.Cid())
				return false
			}
			lv.got[k]++
			lv.gotAt[k] = s.Now()
			if lv.got[k] > 1 {
				s.Failf("duplicate-delivery", "%s received block %s (pool #%d) %d times on one request", desc, b.Cid(), lv.want[k], lv.got[k])
				return false
			}
			s.Logf("%s got #%d", desc, lv.want[k])
			return true
		}
		for ri := range c.Reqs {
			ri := ri
			r := &c.Reqs[ri]
			lv := &c37Live{idx: ri, node: r.Node, want: map[string]int{}, got: map[string]int{}, gotAt: map[string]time.Duration{}}
			lives[ri] = lv
			var keys, keys2 []cid.Cid
			for _, k := range r.Keys {
				keys = append(keys, pool[k].Cid())
				lv.want[pool[k].Cid().KeyString()] = k
			}
			for _, k := range r.Keys2 {
				keys2 = append(keys2, pool[k].Cid())
			}
			desc := fmt.Sprintf("req#%d(node %d, %s %v)", ri, r.Node, r.Kind, r.Keys)
			s.Go(fmt.Sprintf("issue%d", ri), func() {
				if r.DelayMS > 0 {
					time.Sleep(time.Duration(r.DelayMS) * time.Millisecond)
				}
				rctx, cancel := context.WithCancel(ctx)
				group := []*c37Live{lv} // every fetch that runs under this context
				lv.cancel = func() {
					for _, g := range group {
						if !g.closed && !g.cancelled {
							g.cancelled = true
							g.endedAt = s.Now()
						}
					}
					cancel()
				}
				lv.issued = true
				lv.issuedAt = s.Now()
				s.Logf("issue %s", desc)
				if r.CancelAtMS > 0 || r.CancelRacing {
					s.GoBG(fmt.Sprintf("cancel%d", ri), func() {
						if r.CancelAtMS > 0 {
							time.Sleep(time.Duration(r.CancelAtMS) * time.Millisecond)
						}
						if !lv.closed && !lv.cancelled {
							s.Fault("request-cancel-timed")
							s.Logf("cancel %s", desc)
						}
						lv.cancel()
					})
				}
				bsn := nodes[r.Node].bs
				consume := func(ch <-chan blocks.Block, lv *c37Live, desc string) {
					n := 0
					for b := range ch {
						if !receive(lv, b, desc) {
							return
						}
						n++
						if r.CancelAfter > 0 && n == r.CancelAfter && len(lv.got) < len(lv.want) {
							s.Fault("request-cancel-after-k")
							s.Logf("cancel %s after %d", desc, n)
							lv.cancel()
						}
						s.Yield("consumer")
					}
					if !lv.cancelled {
						lv.closed = true
					}
					s.Logf("closed %s", desc)
				}
				switch r.Kind {
				case "getblock":
					s.GoBG(fmt.Sprintf("get%d", ri), func() {
						b, err := bsn.GetBlock(rctx, keys[0])
						if err != nil {
							if !lv.cancelled && ctx.Err() == nil {
								lv.failed = err
							}
							return
						}
						if receive(lv, b, desc) {
							lv.closed = true
						}
					})
				case "getblocks":
					ch, err := bsn.GetBlocks(rctx, keys)
					if err != nil {
						lv.failed = err
						return
					}
					s.GoBG(fmt.Sprintf("consume%d", ri), func() { consume(ch, lv, desc) })
				case "session":
					sctx := rctx
					if r.LongSession {
						sctx, lv.endSession = context.WithCancel(ctx)
						lv.long = true
						s.Probe("session-outlives-request")
					}
					var f exchange.Fetcher = bsn.NewSession(sctx)
					ch, err := f.GetBlocks(rctx, keys)
					if err != nil {
						lv.failed = err
						return
					}
					s.GoBG(fmt.Sprintf("consume%d", ri), func() { consume(ch, lv, desc) })
					if len(keys2) > 0 {
						// a second fetch on the same session is its own request as far as
						// "at most once per request" goes
						lv2 := &c37Live{idx: ri, node: r.Node, want: map[string]int{}, got: map[string]int{}, gotAt: map[string]time.Duration{}, issued: true, issuedAt: s.Now(), long: lv.long}
						for _, k := range r.Keys2 {
							lv2.want[pool[k].Cid().KeyString()] = k
						}
						lv2.cancel = lv.cancel
						group = append(group, lv2)
						if rctx.Err() != nil {
							lv2.cancelled = true // the timed cancel fired while the first fetch was being issued
						}
						lives = append(lives, lv2)
						ch2, err := f.GetBlocks(rctx, keys2)
						if err != nil {
							lv2.failed = err
							return
						}
						desc2 := fmt.Sprintf("req#%d/second(node %d, session %v)", ri, r.Node, r.Keys2)
						s.GoBG(fmt.Sprintf("consume%d.2", ri), func() { consume(ch2, lv2, desc2) })
					}
				}
			})
		}
		if len(c.Chaos) > 0 {
			ops := append([]c37Chaos(nil), c.Chaos...)
			sort.SliceStable(ops, func(i, j int) bool { return ops[i].AtMS < ops[j].AtMS })
			s.Go("chaos", func() {
				for _, op := range ops {
					if d := time.Duration(op.AtMS)*time.Millisecond - s.Now(); d > 0 {
						time.Sleep(d)
					}
					switch op.Kind {
					case "disconnect":
						if op.A != op.B {
							net.DisconnectIdx(op.A, op.B)
						}
					case "connect":
						if op.A != op.B {
							net.ConnectIdx(op.A, op.B)
						}
					case "stall":
						net.Stall(op.A, time.Duration(op.DurMS)*time.Millisecond)
					case "addblock":
						nd := nodes[op.A]
						s.Logf("addblock node %d #%d", op.A, op.B)
						if err := nd.store.Put(ctx, pool[op.B]); err != nil {
							panic(err)
						}
						holders[op.B][op.A] = true
						la := c37LocalAdd{node: op.A, block: op.B, at: s.Now(), racing: map[*c37Live]bool{}}
						for _, lv := range lives {
							// requests of this node that are waiting for the block right now
							if lv != nil && lv.node == op.A && lv.issued && !lv.cancelled && !lv.closed && lv.got[pool[op.B].Cid().KeyString()] == 0 {
								if _, wants := lv.want[pool[op.B].Cid().KeyString()]; wants {
									la.racing[lv] = true
								}
							}
						}
						localAdds = append(localAdds, la)
						if err := nd.bs.NotifyNewBlocks(ctx, pool[op.B]); err != nil {
							s.Failf("notify-failed", "NotifyNewBlocks failed: %v", err)
						}
						s.Fault("block-added-mid-run")
					}
				}
			})
		}
		s.Go("phase", func() { time.Sleep(time.Duration(c.PhaseMS) * time.Millisecond) })

		done := s.Loop()
		shutdown := func() {
			s.Drain()
			cancelAll()
			for _, nd := range nodes {
				nd.bs.Close()
			}
			net.Shutdown()
		}
		if s.Failed() {
			shutdown()
			return
		}
		if !done {
			if s.DeadlockSeen() {
				s.Failf("deadlock", "the run stopped with tasks blocked and no timer pending:\n%s", verifsim.StuckStacks())
			}
			shutdown()
			return
		}
		// ---- settle: faults stop, every link is healed ----
		net.StopFaults()
		for i := 0; i < c.Nodes; i++ {
			for j := i + 1; j < c.Nodes; j++ {
				net.ConnectIdx(i, j)
			}
		}
		settle := 6*time.Duration(c.RebroadcastS)*time.Second + 6*time.Duration(c.ProvSearchMS)*time.Millisecond + time.Minute
		s.Settle(settle)
		if s.Failed() {
			shutdown()
			return
		}
		for _, lv := range lives {
			if !lv.issued || lv.cancelled {
				continue
			}
			desc := fmt.Sprintf("req#%d (node %d)", lv.idx, lv.node)
			if lv.failed != nil {
				s.Failf("request-failed", "%s failed although it was not cancelled: %v", desc, lv.failed)
				shutdown()
				return
			}
			all := true
			for k, b := range lv.want {
				if lv.got[k] > 0 {
					continue
				}
				all = false
				var hs []int
				for n := range holders[b] {
					if n != lv.node {
						hs = append(hs, n)
					}
				}
				sort.Ints(hs)
				if len(hs) > 0 {
					// known finding: an earlier fetch of the same node broadcast the want
					// for this block (and collected the HAVE answers) and was cancelled
					// before the block arrived; the later session's own broadcast is
					// suppressed as a duplicate, answered wants are not re-broadcast, and
					// without routing information the later session never learns who has
					// the block
					// second variant: the earlier fetch was not cancelled but received the
					// block after this one had been issued; its want was still marked as
					// sent when this session asked, the peers had answered it already
					//
					// Before those: the recorded finding about one session asking for a key
					// again right after it received it (see want-left-behind-after-rewant-
					// in-session). When the want sender's "no longer interested" for the
					// received key lands after the session loop's "interested again", the
					// session is no longer accounted for the key and every later block for
					// it is sorted out as unwanted: the second fetch never completes.
					if r := c.Reqs[lv.idx]; r.Kind == "session" {
						in1, in2 := false, false
						for _, kk := range r.Keys {
							in1 = in1 || kk == b
						}
						for _, kk := range r.Keys2 {
							in2 = in2 || kk == b
						}
						if in1 && in2 {
							s.Failf("not-delivered-after-rewant-in-session", "%s never received block #%d although nodes %v hold it and every link was healed %v of simulated time ago; the request asked for it twice on one session (second fetch after the first had received it)", desc, b, hs, settle)
							shutdown()
							return
						}
					}
					for _, e := range lives {
						if _, wants := e.want[k]; e != lv && wants && e.node == lv.node && e.issued && e.got[k] > 0 && e.issuedAt <= lv.issuedAt && e.gotAt[k] >= lv.issuedAt {
							s.Failf("not-delivered-after-cancelled-earlier-fetch", "%s never received block #%d although nodes %v hold it and every link was healed %v of simulated time ago; req#%d of the same node had asked for the block earlier (t=%v) and received it at t=%v, after this request had been issued (t=%v): the want was still marked as sent to the peers, which had answered it", desc, b, hs, settle, e.idx, e.issuedAt, e.gotAt[k], lv.issuedAt)
							shutdown()
							return
						}
					}
					if !c.RoutingKnows {
						for _, e := range lives {
							if _, wants := e.want[k]; e != lv && wants && e.node == lv.node && e.issued && e.cancelled && e.got[k] == 0 && e.issuedAt <= lv.issuedAt {
								s.Failf("not-delivered-after-cancelled-earlier-fetch", "%s never received block #%d although nodes %v hold it and every link was healed %v of simulated time ago; req#%d of the same node had asked for the block earlier (t=%v) and was cancelled before it arrived, and content routing knows no provider", desc, b, hs, settle, e.idx, e.issuedAt)
								shutdown()
								return
							}
						}
					}
					diag := "; the requester's want-list:"
					wanted := false
					for _, w := range nodes[lv.node].bs.GetWantlist() {
						diag += fmt.Sprintf(" #%d", index[w.KeyString()])
						wanted = wanted || w.KeyString() == k
					}
					if !wanted {
						// Known finding: the key of the live request is not even in its node's
						// want-list any more. Another fetch of the node that wanted the same key
						// ended (cancelled) while this one was being set up: the ending session
						// works out "nobody else wants it", this session registers its interest
						// (its broadcast is deduplicated against the want that is still listed),
						// then the ending session's cancel goes out and takes the want with it.
						for _, e := range lives {
							if _, wants := e.want[k]; e != lv && wants && e.node == lv.node && e.issued && e.cancelled && e.got[k] == 0 && e.endedAt >= lv.issuedAt {
								s.Failf("not-delivered-after-overlapping-fetch-cancelled", "%s never received block #%d although nodes %v hold it and every link was healed %v of simulated time ago; the key is no longer in the requester's want-list, and req#%d of the same node, which wanted it too, was cancelled (t=%v) after this request had been issued (t=%v)%s", desc, b, hs, settle, e.idx, e.endedAt, lv.issuedAt, diag)
								shutdown()
								return
							}
						}
					}
					for _, h := range hs {
						in := false
						for _, w := range nodes[h].bs.WantlistForPeer(nodes[lv.node].adapt.Self()) {
							in = in || w.KeyString() == k
						}
						has, _ := nodes[h].store.Has(ctx, pool[b].Cid())
						diag += fmt.Sprintf("; node %d's ledger for the requester has the want: %v (%d entries; block %s in its store: %v)", h, in, len(nodes[h].bs.WantlistForPeer(nodes[lv.node].adapt.Self())), pool[b].Cid(), has)
					}
					s.Failf("not-delivered", "%s never received block #%d although nodes %v hold it and every link was healed %v of simulated time ago (wantlist of the requester: %d entries%s)", desc, b, hs, settle, len(nodes[lv.node].bs.GetWantlist()), diag)
					shutdown()
					return
				}
			}
			if all && !lv.closed {
				s.Failf("request-not-completed", "%s received every requested block but its channel was never closed", desc)
				shutdown()
				return
			}
		}
		// want-list clean-up: only CIDs of live, incomplete requests may remain
		type c37Suspect struct {
			node, block, owner int
			key                string
		}
		var suspects []c37Suspect
		checkWantlists := func(when string) bool {
			for ni, nd := range nodes {
				allowed := map[string]bool{}
				for _, lv := range lives {
					if lv.node != ni || !lv.issued || lv.cancelled || lv.closed {
						continue
					}
					for k := range lv.want {
						if lv.got[k] == 0 {
							allowed[k] = true
						}
					}
				}
				for _, w := range nd.bs.GetWantlist() {
					if !allowed[w.KeyString()] {
						// Known finding: a fetch subscribes to the block pubsub before its session
						// has registered the want. A block reported to the sessions in that window
						// reaches the caller but not the session, which goes on wanting it until its
						// context ends. Such a left-over is owned by a session that is still alive:
						// it must be gone once every request context has been cancelled (judged in
						// the last phase). A left-over with no such owner is reported at once.
						b := index[w.KeyString()]
						if when == "after the settle phase" {
							owner := -1
							for _, lv := range lives {
								if lv.node != ni || !lv.issued {
									continue
								}
								if (!lv.cancelled || lv.long) && lv.got[w.KeyString()] > 0 {
									owner = lv.idx
								}
								// the same on a session that outlives its cancelled request: the
								// fetch took the block from the pubsub (so it is no longer among the
								// keys it cancels on the way out) but the cancellation kept it from
								// the caller. The block must have reached the node after the request
								// was issued: announced locally, or received for another request.
								if _, wants := lv.want[w.KeyString()]; wants && lv.long && lv.cancelled {
									for _, la := range localAdds {
										if la.node == ni && la.block == b && la.at >= lv.issuedAt {
											owner = lv.idx
										}
									}
									for _, e := range lives {
										if e != lv && e.node == ni && e.got[w.KeyString()] > 0 && e.gotAt[w.KeyString()] >= lv.issuedAt {
											owner = lv.idx
										}
									}
								}
							}
							if owner >= 0 {
								suspects = append(suspects, c37Suspect{node: ni, block: b, key: w.KeyString(), owner: owner})
								continue
							}
						}
						// Known finding: the same session asks for a key again right after it got
						// it (second fetch on the session with a key of the first). The cancel for
						// the received key travels through the session's want sender, the new want
						// is registered by the session loop: if the want sender's "no longer
						// interested" lands between the loop's "interested again" and its broadcast,
						// the want is on the wire with nobody accounting for it.
						for ri, r := range c.Reqs {
							if r.Node != ni || r.Kind != "session" {
								continue
							}
							in1, in2 := false, false
							for _, k := range r.Keys {
								in1 = in1 || k == b
							}
							for _, k := range r.Keys2 {
								in2 = in2 || k == b
							}
							if in1 && in2 {
								s.Failf("want-left-behind-after-rewant-in-session", "%s: node %d's want-list still contains block #%d; req#%d asked for it twice on one session (second fetch after the first had received it)", when, ni, b, ri)
								return false
							}
						}
						s.Failf("want-left-behind", "%s: node %d's want-list still contains block #%d, which no live request of that node is waiting for", when, ni, index[w.KeyString()])
						return false
					}
				}
			}
			return true
		}
		if !checkWantlists("after the settle phase") {
			shutdown()
			return
		}
		for _, lv := range lives {
			if lv.issued && lv.cancel != nil {
				lv.cancel() // also ends the sessions of completed requests
			}
			if lv.endSession != nil {
				lv.endSession()
			}
		}
		s.Settle(30 * time.Second)
		if !s.Failed() && checkWantlists("after every request was completed or cancelled") && len(suspects) > 0 {
			// every suspect has gone with its session: the known finding, not more
			su := suspects[0]
			s.Failf("want-left-behind-until-session-end", "node %d's want-list contained block #%d after req#%d had received it, for as long as the context of that request was alive; it was gone once the context was cancelled (the request got the block from the pubsub before its session had registered the want)", su.node, su.block, su.owner)
		}
		shutdown()
	})
}

// c37Prewarm initialises the lazily built protobuf descriptors of every message
// field before the first run, outside any bubble, so that no run differs from
// the others by being the first one to use a field.
func c37Prewarm() {
	b := c37Block(0, false)
	m := bsmsg.New(true)
	m.AddEntry(b.Cid(), 1, pb.Message_Wantlist_Block, true)
	m.AddEntry(c37Block(1, false).Cid(), 1, pb.Message_Wantlist_Have, false)
	m.Cancel(c37Block(2, false).Cid())
	m.AddBlock(b)
	m.AddHave(b.Cid())
	m.AddDontHave(b.Cid())
	m.SetPendingBytes(7)
	var buf bytes.Buffer
	if err := m.ToNetV1(&buf); err != nil {
		panic(err)
	}
	if _, _, err := bsmsg.FromNet(bytes.NewReader(buf.Bytes())); err != nil {
		panic(err)
	}
	buf.Reset()
	if err := m.ToNetV0(&buf); err != nil {
		panic(err)
	}
	_ = m.Size()
	_ = m.Clone()
}

func TestVerifC37(t *testing.T) {
	c37Prewarm()
	verifsim.Main(t, verifsim.Harness{
		Property: "C37",
		Name:     "bitswap-exchange",
		Gen:      c37Gen,
		New:      func() any { return &c37Case{} },
		Run:      c37Run,
		Sample: func(c any) any {
			cc := *c.(*c37Case)
			cc.Cfg.Tape = nil
			return cc
		},
	})
}
