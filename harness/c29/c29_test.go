package namesys

// C29 — name publishing is monotone and resolution is consistent.
// Real: NameSystem (cache sizes 0..8, max-cache-TTL), IPNSPublisher,
// IPNSResolver, recursive resolution, ipns record code. Simulated: the routing
// value store (puts/gets/searches park, may fail, searches may deliver an older
// record before the best one), the publisher's datastore, the clock (cache TTLs,
// record EOL), keys from a seeded reader.

import (
	"context"
	"errors"
	"fmt"
	"math/rand"
	"strings"
	"testing"
	"time"

	"github.com/ipfs/boxo/internal/verifsim"
	"github.com/ipfs/boxo/internal/verifsim/simds"
	"github.com/ipfs/boxo/ipns"
	"github.com/ipfs/boxo/path"
	"github.com/libp2p/go-libp2p/core/crypto"
	"github.com/libp2p/go-libp2p/core/peer"
	"github.com/libp2p/go-libp2p/core/routing"
	"pgregory.net/rapid"
)

type c29Op struct {
	Kind   string `json:"k"` // publish resolve sleep chain
	Name   int    `json:"n,omitempty"`
	Value  int    `json:"v,omitempty"`
	Seq    string `json:"seq,omitempty"` // "" none, "next", "same", "zero", "big"
	TTLSec int    `json:"ttl,omitempty"` // -1 default
	EOLSec int    `json:"eol,omitempty"` // 0 default lifetime
	DurSec int    `json:"d,omitempty"`
	Depth  int    `json:"depth,omitempty"` // chain: 0 = default limit
	Start  int    `json:"start,omitempty"`
	Rem    string `json:"rem,omitempty"`
}

type c29Hop struct {
	Rem    string `json:"rem"`
	TTLSec int    `json:"ttl"`
}

type c29Case struct {
	Cfg         verifsim.Config `json:"cfg"`
	CacheSize   int             `json:"cache"`
	MaxCacheTTL int             `json:"max_cache_ttl_s"`  // -1 unset
	Tasks       [][]c29Op       `json:"tasks"`            // task t publishes/resolves only name t
	Chain       []c29Hop        `json:"chain"`            // c0 -> c1 -> ... -> terminal
	Cycle       bool            `json:"cycle"`            // the last name points back to c0 instead of to the terminal path
	StaleFirst  bool            `json:"stale_first"`      // searches deliver the previous record before the current one
	RoutingFail []int           `json:"routing_put_fail"` // 1-based PutValue calls that fail
	KeySeed     int64           `json:"key_seed"`
}

const c29Terminal = "/ipfs/bafkreifjjcie6lypi6ny7amxnfftagclbuxndqonfipmb64f2km2devei4"

var c29Values = []string{
	"/ipfs/bafkreifjjcie6lypi6ny7amxnfftagclbuxndqonfipmb64f2km2devei4",
	"/ipfs/bafkreiemxf5abjwjbikoz4mc3a3dla6ual3jsgpdr4cjr3oz3evfyavhwq",
	"/ipfs/bafkreia2qo7e2cjbq27ntzqh3rygwo7i7etx6r6y6qrhsvh72sgrzlo3vy/sub/dir",
	"/ipfs/bafkreidgvpkjawlxz6sffxzwgooowe5yt7i6wsyg236mfoks77nywkptdq",
}

func c29Gen(t *rapid.T, tier string) any {
	c := &c29Case{}
	c.CacheSize = rapid.SampledFrom([]int{0, 1, 8}).Draw(t, "cache")
	c.MaxCacheTTL = rapid.SampledFrom([]int{-1, -1, 0, 30}).Draw(t, "maxttl")
	maxOps := 8
	if tier == "thorough" {
		maxOps = 25
	}
	nt := rapid.IntRange(1, 2).Draw(t, "ntasks")
	for ti := 0; ti < nt; ti++ {
		gen := rapid.Custom(func(t *rapid.T) c29Op {
			op := c29Op{Kind: rapid.SampledFrom([]string{"publish", "publish", "publish", "resolve", "resolve", "sleep", "chain"}).Draw(t, "k"), Name: ti}
			switch op.Kind {
			case "publish":
				op.Value = rapid.IntRange(0, len(c29Values)-1).Draw(t, "v")
				op.Seq = rapid.SampledFrom([]string{"", "", "", "next", "same", "zero", "big"}).Draw(t, "seq")
				op.TTLSec = rapid.SampledFrom([]int{-1, -1, 0, 10, 120}).Draw(t, "ttl")
				op.EOLSec = rapid.SampledFrom([]int{0, 0, 0, 30}).Draw(t, "eol")
			case "sleep":
				op.DurSec = rapid.SampledFrom([]int{1, 15, 61, 180}).Draw(t, "d")
			case "chain":
				op.Depth = rapid.SampledFrom([]int{0, 1, 2, 3, 6, 7}).Draw(t, "depth")
				op.Start = rapid.IntRange(0, 5).Draw(t, "start")
				op.Rem = rapid.SampledFrom([]string{"", "x", "x/y", "/", "x/"}).Draw(t, "rem") // "/" = nothing but a trailing slash
			}
			return op
		})
		c.Tasks = append(c.Tasks, rapid.SliceOfN(gen, 1, maxOps).Draw(t, "ops"))
	}
	nh := rapid.IntRange(1, 6).Draw(t, "hops")
	for i := 0; i < nh; i++ {
		c.Chain = append(c.Chain, c29Hop{Rem: rapid.SampledFrom([]string{"", "", "a", "b/c"}).Draw(t, "hrem"), TTLSec: rapid.SampledFrom([]int{0, 10, 60, 300}).Draw(t, "httl")})
	}
	c.Cycle = rapid.IntRange(0, 4).Draw(t, "cycle") == 0
	c.StaleFirst = rapid.Bool().Draw(t, "stale")
	if rapid.IntRange(0, 4).Draw(t, "putfail") == 0 {
		c.RoutingFail = rapid.SliceOfNDistinct(rapid.IntRange(1, 6), 1, 2, func(i int) int { return i }).Draw(t, "fails")
	}
	c.KeySeed = int64(rapid.IntRange(1, 1<<20).Draw(t, "keyseed"))
	// the horizon (how long nothing may happen before the run counts as stuck) must exceed
	// the longest chain of consecutive sleep operations (25 x 180 s)
	c.Cfg = verifsim.GenConfig(t, 300, 20000, 3*time.Hour, nil)
	return c
}

// ---- simulated routing ----

type c29Routing struct {
	s      *verifsim.Sim
	cur    map[string][]byte
	prev   map[string][]byte
	puts   int
	fail   map[int]bool
	stale  bool
	putLog []struct {
		key string
		val []byte
	}
}

func (r *c29Routing) PutValue(ctx context.Context, key string, val []byte, _ ...routing.Option) error {
	r.puts++
	n := r.puts
	r.s.Yield("routing.put")
	if err := ctx.Err(); err != nil {
		return err
	}
	if r.fail[n] && strings.HasPrefix(key, "/ipns/") {
		r.s.Fault("routing-put-error")
		return errors.New("c29: injected routing put error")
	}
	cp := append([]byte(nil), val...)
	r.putLog = append(r.putLog, struct {
		key string
		val []byte
	}{key, cp})
	// like a DHT with the IPNS validator, keep the best record
	if old, ok := r.cur[key]; ok && strings.HasPrefix(key, "/ipns/") {
		if or, err1 := ipns.UnmarshalRecord(old); err1 == nil {
			if nr, err2 := ipns.UnmarshalRecord(cp); err2 == nil {
				os, _ := or.Sequence()
				ns, _ := nr.Sequence()
				if ns < os {
					r.s.Probe("routing-kept-newer-record")
					return nil
				}
			}
		}
		r.prev[key] = old
	}
	r.cur[key] = cp
	r.s.Logf("routing.put %d bytes", len(cp))
	return nil
}

func (r *c29Routing) GetValue(ctx context.Context, key string, _ ...routing.Option) ([]byte, error) {
	r.s.Yield("routing.get")
	if err := ctx.Err(); err != nil {
		return nil, err
	}
	v, ok := r.cur[key]
	if !ok {
		return nil, routing.ErrNotFound
	}
	return append([]byte(nil), v...), nil
}

func (r *c29Routing) SearchValue(ctx context.Context, key string, _ ...routing.Option) (<-chan []byte, error) {
	r.s.Yield("routing.search")
	if err := ctx.Err(); err != nil {
		return nil, err
	}
	var vals [][]byte
	if v, ok := r.cur[key]; ok {
		if p, okp := r.prev[key]; okp && r.stale {
			vals = append(vals, p) // a search may report an older record first, then the better one
			r.s.Fault("search-stale-record-first")
		}
		vals = append(vals, v)
	}
	out := make(chan []byte)
	go func() {
		defer close(out)
		for _, v := range vals {
			r.s.Yield("routing.deliver")
			select {
			case out <- append([]byte(nil), v...):
			case <-ctx.Done():
				return
			}
		}
	}()
	return out, nil
}

func c29Run(t *testing.T, ci any, trace bool) *verifsim.Result {
	c := ci.(*c29Case)
	return verifsim.Run(t, c.Cfg, trace, func(s *verifsim.Sim) {
		rt := &c29Routing{s: s, cur: map[string][]byte{}, prev: map[string][]byte{}, fail: map[int]bool{}, stale: c.StaleFirst}
		for _, n := range c.RoutingFail {
			rt.fail[n] = true
		}
		d := simds.New(s, "ds", nil)
		d.IgnoreCtx = true
		d.Quiet = true
		opts := []Option{WithDatastore(d)}
		if c.CacheSize > 0 {
			opts = append(opts, WithCache(c.CacheSize))
		}
		if c.MaxCacheTTL >= 0 {
			opts = append(opts, WithMaxCacheTTL(time.Duration(c.MaxCacheTTL)*time.Second))
		}
		nsys, err := NewNameSystem(rt, opts...)
		if err != nil {
			panic(err)
		}
		rng := rand.New(rand.NewSource(c.KeySeed))
		mkKey := func() (crypto.PrivKey, ipns.Name) {
			sk, _, err := crypto.GenerateEd25519Key(rng)
			if err != nil {
				panic(err)
			}
			pid, _ := peer.IDFromPrivateKey(sk)
			return sk, ipns.NameFromPeer(pid)
		}
		bg := context.Background()

		// ---- chain names, pre-loaded into routing ----
		nh := len(c.Chain)
		chainKeys := make([]crypto.PrivKey, nh)
		chainNames := make([]ipns.Name, nh)
		for i := 0; i < nh; i++ {
			chainKeys[i], chainNames[i] = mkKey()
		}
		for i := 0; i < nh; i++ {
			var target string
			switch {
			case i < nh-1:
				target = chainNames[i+1].AsPath().String()
			case c.Cycle:
				target = chainNames[0].AsPath().String()
			default:
				target = c29Terminal
			}
			if c.Chain[i].Rem != "" {
				target += "/" + c.Chain[i].Rem
			}
			p, err := path.NewPath(target)
			if err != nil {
				panic(err)
			}
			rec, err := ipns.NewRecord(chainKeys[i], p, 1, time.Now().Add(1000*time.Hour), time.Duration(c.Chain[i].TTLSec)*time.Second)
			if err != nil {
				panic(err)
			}
			b, _ := ipns.MarshalRecord(rec)
			rt.cur[string(chainNames[i].RoutingKey())] = b
		}

		type nameState struct {
			sk        crypto.PrivKey
			name      ipns.Name
			hasRec    bool
			seq       uint64
			value     string
			eol       time.Time
			uncertain bool // a publish failed half-way: the local record may be ahead of routing
			lastOK    string
		}
		for ti, ops := range c.Tasks {
			ti, ops := ti, ops
			st := &nameState{}
			st.sk, st.name = mkKey()
			s.Go(fmt.Sprintf("task%d", ti), func() {
				for n, op := range ops {
					desc := fmt.Sprintf("t%d op#%d %s", ti, n, op.Kind)
					switch op.Kind {
					case "sleep":
						s.Logf("%s %ds", desc, op.DurSec)
						time.Sleep(time.Duration(op.DurSec) * time.Second)
					case "publish":
						val, _ := path.NewPath(c29Values[op.Value])
						var popts []PublishOption
						var wantSeq uint64
						wantErrSeq := false
						switch op.Seq {
						case "":
							if st.hasRec {
								wantSeq = st.seq
								if st.value != val.String() {
									wantSeq++
								}
							}
						case "next":
							wantSeq = st.seq + 1
							popts = append(popts, PublishWithSequence(wantSeq))
						case "same":
							popts = append(popts, PublishWithSequence(st.seq))
							wantSeq = st.seq
							wantErrSeq = st.hasRec || st.seq == 0
						case "zero":
							popts = append(popts, PublishWithSequence(0))
							wantErrSeq = true
						case "big":
							wantSeq = st.seq + 1000
							popts = append(popts, PublishWithSequence(wantSeq))
						}
						if op.TTLSec >= 0 {
							popts = append(popts, PublishWithTTL(time.Duration(op.TTLSec)*time.Second))
						}
						eol := time.Now().Add(ipns.DefaultRecordLifetime)
						if op.EOLSec > 0 {
							eol = time.Now().Add(time.Duration(op.EOLSec) * time.Second)
							popts = append(popts, PublishWithEOL(eol))
						}
						s.Logf("%s v%d seq=%q ttl=%d eol=%d", desc, op.Value, op.Seq, op.TTLSec, op.EOLSec)
						faults := s.FaultCount()
						putsBefore := len(rt.putLog)
						err := nsys.Publish(bg, st.sk, val, popts...)
						injected := s.FaultCount() != faults
						// every IPNS record put for this name must carry a sequence number that does not go down
						for _, pl := range rt.putLog[putsBefore:] {
							if pl.key != string(st.name.RoutingKey()) {
								continue
							}
							rec, uerr := ipns.UnmarshalRecord(pl.val)
							if uerr != nil {
								s.Failf("bad-record", "%s wrote an undecodable record to routing: %v", desc, uerr)
								return
							}
							seq, _ := rec.Sequence()
							rv, _ := rec.Value()
							if st.hasRec && seq < st.seq {
								s.Failf("sequence-decreased", "%s wrote a record with sequence %d, the previous record had %d", desc, seq, st.seq)
								return
							}
							if st.hasRec && !st.uncertain && rv.String() != st.value && seq <= st.seq {
								s.Failf("sequence-not-increased", "%s changed the value (%s -> %s) but kept sequence %d", desc, st.value, rv.String(), seq)
								return
							}
						}
						switch {
						case err == nil && wantErrSeq && !st.uncertain:
							s.Failf("invalid-sequence-accepted", "%s: an explicit sequence (%s) not greater than the current one (%d, record exists: %v) was accepted", desc, op.Seq, st.seq, st.hasRec)
							return
						case err != nil && errors.Is(err, ErrInvalidSequence):
							if !wantErrSeq && !st.uncertain {
								s.Failf("valid-sequence-rejected", "%s: sequence option %q was rejected although it is greater than the current sequence %d", desc, op.Seq, st.seq)
								return
							}
						case err != nil:
							if !injected {
								s.Failf("unexpected-error", "%s failed without an injected fault: %v", desc, err)
								return
							}
							// the record was stored locally before the routing put failed
							st.uncertain = true
							if r2, gerr := nsys.(*namesys).ipnsPublisher.(*IPNSPublisher).GetPublished(bg, st.name, false); gerr == nil && r2 != nil {
								st.hasRec = true
								st.seq, _ = r2.Sequence()
								v2, _ := r2.Value()
								st.value = v2.String()
							}
						default:
							if !st.uncertain && st.hasRec || (!st.hasRec && op.Seq != "") {
								// the model knows the exact sequence
								if got := c29LastSeq(rt, st.name); got != wantSeq && op.Seq != "same" {
									s.Failf("wrong-sequence", "%s published sequence %d, expected %d", desc, got, wantSeq)
									return
								}
							}
							st.hasRec, st.value, st.eol, st.lastOK = true, val.String(), eol, val.String()
							st.seq = c29LastSeq(rt, st.name)
							st.uncertain = false
						}
					case "resolve":
						if st.lastOK == "" {
							continue
						}
						s.Logf("%s", desc)
						faults := s.FaultCount()
						res, err := nsys.Resolve(bg, st.name.AsPath())
						if time.Now().After(st.eol) || st.uncertain {
							continue // expired record / half-failed publish: no claim
						}
						_ = faults
						if err != nil {
							s.Failf("resolve-failed", "%s: resolving a name published through the same name system failed: %v", desc, err)
							return
						}
						if res.Path.String() != st.lastOK {
							s.Failf("stale-resolve", "%s returned %s, but the last successful Publish through this name system set %s (cache size %d, max cache TTL %d s)", desc, res.Path, st.lastOK, c.CacheSize, c.MaxCacheTTL)
							return
						}
					case "chain":
						start := op.Start % nh
						reqs := chainNames[start].AsPath().String()
						if op.Rem == "/" {
							reqs += "/"
						} else if op.Rem != "" {
							reqs += "/" + op.Rem
						}
						req, _ := path.NewPath(reqs)
						var ropts []ResolveOption
						limit := DefaultDepthLimit
						if op.Depth > 0 {
							ropts = append(ropts, ResolveWithDepth(uint(op.Depth)))
							limit = op.Depth
						}
						s.Logf("%s start=c%d depth=%d rem=%q", desc, start, op.Depth, op.Rem)
						res, err := nsys.Resolve(bg, req, ropts...)
						hops := nh - start
						var rems []string
						minTTL := time.Duration(0)
						for i := start; i < nh; i++ {
							if c.Chain[i].Rem != "" {
								rems = append([]string{c.Chain[i].Rem}, rems...)
							}
						}
						if c.Cycle {
							if !errors.Is(err, ErrResolveRecursion) {
								s.Failf("cycle-not-detected", "%s: the names form a cycle, expected ErrResolveRecursion within depth %d, got path=%v err=%v", desc, limit, res.Path, err)
								return
							}
							continue
						}
						if hops > limit {
							if !errors.Is(err, ErrResolveRecursion) {
								s.Failf("recursion-limit", "%s: the chain has %d names and the depth limit is %d, expected ErrResolveRecursion, got path=%v err=%v", desc, hops, limit, res.Path, err)
								return
							}
							continue
						}
						if err != nil {
							s.Failf("chain-failed", "%s: a chain of %d names within depth limit %d failed: %v", desc, hops, limit, err)
							return
						}
						want := c29Terminal
						for _, r := range rems {
							want += "/" + r
						}
						if op.Rem == "/" {
							want += "/" // a trailing slash is part of the remainder and is kept
						} else if op.Rem != "" {
							want += "/" + op.Rem
						}
						if res.Path.String() != want {
							s.Failf("chain-wrong-path", "%s resolved to %s, expected %s", desc, res.Path, want)
							return
						}
						if c.CacheSize == 0 {
							for i := start; i < nh; i++ {
								ttl := time.Duration(c.Chain[i].TTLSec) * time.Second
								if ttl > 0 && (minTTL == 0 || ttl < minTTL) {
									minTTL = ttl
								}
							}
							if c.MaxCacheTTL > 0 && minTTL > time.Duration(c.MaxCacheTTL)*time.Second {
								minTTL = time.Duration(c.MaxCacheTTL) * time.Second
							}
							if res.TTL != minTTL {
								s.Failf("chain-wrong-ttl", "%s reported TTL %v, the smallest non-zero TTL along the chain (capped by max cache TTL %d s) is %v", desc, res.TTL, c.MaxCacheTTL, minTTL)
								return
							}
						}
					}
				}
			})
		}
		done := s.Loop()
		if !done && s.DeadlockSeen() {
			s.Failf("harness-deadlock", "tasks blocked forever:\n%s", verifsim.StuckStacks())
		}
		s.Drain()
		time.Sleep(2 * time.Minute)
	})
}

func c29LastSeq(rt *c29Routing, name ipns.Name) uint64 {
	v, ok := rt.cur[string(name.RoutingKey())]
	if !ok {
		return 0
	}
	rec, err := ipns.UnmarshalRecord(v)
	if err != nil {
		return 0
	}
	seq, _ := rec.Sequence()
	return seq
}

func TestVerifC29(t *testing.T) {
	verifsim.Main(t, verifsim.Harness{
		Property: "C29",
		Name:     "namesys",
		Gen:      c29Gen,
		New:      func() any { return &c29Case{} },
		Run:      c29Run,
		Sample: func(c any) any {
			cc := *c.(*c29Case)
			cc.Cfg.Tape = nil
			return cc
		},
	})
}
