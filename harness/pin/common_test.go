package dspinner

// Shared pieces of the C22 / C23 harnesses: DAG generation, the pin model, the
// operation executor and the query oracle.

import (
	"context"
	"errors"
	"fmt"
	"math/rand"
	"sort"
	"strings"

	"github.com/google/uuid"
	"github.com/ipfs/boxo/internal/verifsim"
	"github.com/ipfs/boxo/internal/verifsim/simdag"
	"github.com/ipfs/boxo/internal/verifsim/simds"
	"github.com/ipfs/boxo/ipld/merkledag"
	ipfspinner "github.com/ipfs/boxo/pinning/pinner"
	cid "github.com/ipfs/go-cid"
	ipld "github.com/ipfs/go-ipld-format"
	"pgregory.net/rapid"
)

type pinOp struct {
	Kind   string `json:"k"` // pin pinmode unpin update flush
	Node   int    `json:"n"`
	To     int    `json:"to,omitempty"`
	Rec    bool   `json:"rec,omitempty"`
	Mode   int    `json:"mode,omitempty"` // pinmode: ipfspinner.Mode value (may be invalid)
	Name   string `json:"name,omitempty"`
	Unpin  bool   `json:"unpin,omitempty"`
	Cancel int    `json:"cancel,omitempty"` // >0: cancel the op's context at its Cancel-th seam call (1 = before the first)
}

type pinDAG struct {
	Links   [][]int `json:"links"`   // node i -> children (indices > i)
	Missing []int   `json:"missing"` // nodes not stored in the DAG service
}

func genPinDAG(t *rapid.T, maxNodes int) pinDAG {
	n := rapid.IntRange(2, maxNodes).Draw(t, "nnodes")
	d := pinDAG{Links: make([][]int, n)}
	for i := 0; i < n-1; i++ {
		k := rapid.IntRange(0, 3).Draw(t, "nlinks")
		for j := 0; j < k; j++ {
			d.Links[i] = append(d.Links[i], rapid.IntRange(i+1, n-1).Draw(t, "child"))
		}
	}
	if rapid.IntRange(0, 2).Draw(t, "withmissing") == 0 {
		d.Missing = rapid.SliceOfNDistinct(rapid.IntRange(0, n-1), 1, 3, func(i int) int { return i }).Draw(t, "missing")
	}
	return d
}

func genPinOps(t *rapid.T, n int, maxOps int, withCancel bool) []pinOp {
	names := []string{"", "", "a", "b"}
	gen := rapid.Custom(func(t *rapid.T) pinOp {
		op := pinOp{Kind: rapid.SampledFrom([]string{"pin", "pin", "pin", "pinmode", "unpin", "unpin", "update", "flush"}).Draw(t, "kind")}
		op.Node = rapid.IntRange(0, n-1).Draw(t, "node")
		switch op.Kind {
		case "pin":
			op.Rec = rapid.Bool().Draw(t, "rec")
			op.Name = rapid.SampledFrom(names).Draw(t, "name")
		case "pinmode":
			op.Mode = rapid.SampledFrom([]int{0, 0, 1, 1, 2, 3, 5, 9}).Draw(t, "mode")
			op.Name = rapid.SampledFrom(names).Draw(t, "name")
		case "unpin":
			op.Rec = rapid.Bool().Draw(t, "rec")
		case "update":
			op.To = rapid.IntRange(0, n-1).Draw(t, "to")
			op.Unpin = rapid.Bool().Draw(t, "unpin")
		}
		if withCancel && op.Kind != "flush" && rapid.IntRange(0, 7).Draw(t, "cancelled") == 0 {
			op.Cancel = rapid.IntRange(1, 12).Draw(t, "cancelat")
		}
		return op
	})
	return rapid.SliceOfN(gen, 1, maxOps).Draw(t, "ops")
}

// pinWorld is the generated DAG materialised as real dag-pb nodes.
type pinWorld struct {
	nodes   []*merkledag.ProtoNode
	cids    []cid.Cid
	idx     map[string]int
	present []bool
}

func buildPinWorld(d pinDAG, dag *simdag.DAG) *pinWorld {
	n := len(d.Links)
	w := &pinWorld{nodes: make([]*merkledag.ProtoNode, n), cids: make([]cid.Cid, n), idx: map[string]int{}, present: make([]bool, n)}
	for i := n - 1; i >= 0; i-- {
		nd := merkledag.NodeWithData([]byte(fmt.Sprintf("pin-node-%d", i)))
		for li, c := range d.Links[i] {
			if err := nd.AddNodeLink(fmt.Sprintf("l%d", li), w.nodes[c]); err != nil {
				panic(err)
			}
		}
		w.nodes[i] = nd
		w.cids[i] = nd.Cid()
		w.idx[nd.Cid().KeyString()] = i
		dag.Names[nd.Cid().KeyString()] = fmt.Sprintf("n%d", i)
	}
	missing := map[int]bool{}
	for _, m := range d.Missing {
		missing[m] = true
	}
	for i := 0; i < n; i++ {
		if !missing[i] {
			dag.Put(w.nodes[i])
			w.present[i] = true
		}
	}
	return w
}

type modelPin struct {
	rec  bool
	name string
}

type pinModel struct {
	w    *pinWorld
	d    pinDAG
	pins map[int]modelPin // at most one pin per CID, as in dspinner
	both map[int]string   // CIDs that additionally hold a direct pin next to a recursive one (name)
}

// reach returns the nodes reachable from root through stored nodes (root
// excluded unless reached again), and whether the walk met a missing node.
func (m *pinModel) reach(root int) (map[int]bool, bool) {
	seen := map[int]bool{}
	hitMissing := false
	var walk func(i int)
	walk = func(i int) {
		if !m.w.present[i] {
			hitMissing = true
			return
		}
		for _, c := range m.d.Links[i] {
			if !seen[c] {
				seen[c] = true
				walk(c)
			}
		}
	}
	walk(root)
	return seen, hitMissing
}

// graphComplete reports whether every node of root's graph is stored.
func (m *pinModel) graphComplete(root int) bool {
	if !m.w.present[root] {
		return false
	}
	_, miss := m.reach(root)
	return !miss
}

func (m *pinModel) recRoots() []int {
	var r []int
	for i, p := range m.pins {
		if p.rec {
			r = append(r, i)
		}
	}
	sort.Ints(r)
	return r
}

// indirectVia returns the recursive roots (other than i) whose graph contains i.
func (m *pinModel) indirectVia(i int) []int {
	var via []int
	for _, r := range m.recRoots() {
		if r == i {
			continue
		}
		seen, _ := m.reach(r)
		if seen[i] {
			via = append(via, r)
		}
	}
	return via
}

// traversalSafe: no recursive root's graph contains a missing node, so queries
// that traverse cannot legitimately fail.
func (m *pinModel) traversalSafe() bool {
	for _, r := range m.recRoots() {
		if !m.graphComplete(r) {
			return false
		}
	}
	return true
}

func (m *pinModel) clone() *pinModel {
	c := &pinModel{w: m.w, d: m.d, pins: map[int]modelPin{}, both: map[int]string{}}
	for k, v := range m.pins {
		c.pins[k] = v
	}
	for k, v := range m.both {
		c.both[k] = v
	}
	return c
}

// pinEnv bundles the real pinner with its simulated environment.
type pinEnv struct {
	s     *verifsim.Sim
	ds    *simds.DS
	dag   *simdag.DAG
	w     *pinWorld
	p     *pinner
	model *pinModel
	seam  int // seam calls made so far (ds + dag), for context cancellation
}

func seedUUID(seed uint64) {
	uuid.SetRand(rand.New(rand.NewSource(int64(seed))))
}

// cancelCtx returns a context that is cancelled at the k-th seam call from now.
type countingHooks struct {
	remaining int
	cancel    context.CancelFunc
}

func (e *pinEnv) armCancel(k int) (context.Context, func()) {
	ctx, cancel := context.WithCancel(context.Background())
	if k <= 0 {
		return ctx, cancel
	}
	h := &countingHooks{remaining: k, cancel: cancel}
	tick := func(string, string) {
		h.remaining--
		if h.remaining == 0 {
			e.s.Fault("op-ctx-cancel")
			cancel()
		}
	}
	// Only DAG-service calls count and only the DAG service honours the context:
	// the datastore ignores cancellation (as the in-memory and LevelDB stores
	// do), so a cancelled context makes fetches fail, never individual writes.
	e.dag.Pre = func(op string) { tick(op, "") }
	return ctx, func() {
		e.ds.Pre = nil
		e.dag.Pre = nil
		cancel()
	}
}

// apply executes op on the real pinner and, if it succeeded, on the model. It
// returns the error and whether an error is explainable by the environment
// (missing block, injected fault, cancelled context) or by the pin semantics.
func (e *pinEnv) apply(op pinOp) (err error, expected bool, desc string) {
	m := e.model
	c := e.w.cids[op.Node]
	faults := e.s.FaultCount()
	ctx, done := e.armCancel(op.Cancel)
	defer done()
	cur, pinned := m.pins[op.Node]
	switch op.Kind {
	case "pin":
		desc = fmt.Sprintf("Pin(n%d, recursive=%v, %q)", op.Node, op.Rec, op.Name)
		wasPresent := e.w.present[op.Node]
		err = e.p.Pin(ctx, e.w.nodes[op.Node], op.Rec, op.Name)
		if e.dag.Has(c) {
			e.w.present[op.Node] = true // Pin adds the node itself to the DAG service
		}
		_ = wasPresent
		if err == nil {
			if op.Rec {
				m.pins[op.Node] = modelPin{rec: true, name: op.Name}
				delete(m.both, op.Node)
			} else {
				m.pins[op.Node] = modelPin{rec: false, name: op.Name}
			}
		} else {
			expected = (op.Rec && !m.graphComplete(op.Node)) || (!op.Rec && pinned && cur.rec)
		}
	case "pinmode":
		desc = fmt.Sprintf("PinWithMode(n%d, mode=%d, %q)", op.Node, op.Mode, op.Name)
		err = e.p.PinWithMode(ctx, c, ipfspinner.Mode(op.Mode), op.Name)
		if err == nil {
			switch ipfspinner.Mode(op.Mode) {
			case ipfspinner.Recursive:
				m.pins[op.Node] = modelPin{rec: true, name: op.Name}
				delete(m.both, op.Node)
			case ipfspinner.Direct:
				m.pins[op.Node] = modelPin{rec: false, name: op.Name}
			default:
				expected = false
				return fmt.Errorf("PinWithMode accepted invalid mode %d", op.Mode), false, desc
			}
		} else {
			mode := ipfspinner.Mode(op.Mode)
			expected = (mode != ipfspinner.Recursive && mode != ipfspinner.Direct) || (mode == ipfspinner.Direct && pinned && cur.rec)
		}
	case "unpin":
		desc = fmt.Sprintf("Unpin(n%d, recursive=%v)", op.Node, op.Rec)
		err = e.p.Unpin(ctx, c, op.Rec)
		if err == nil {
			if !pinned {
				return errors.New("Unpin of a CID that is not pinned returned nil"), false, desc
			}
			if cur.rec && !op.Rec {
				return errors.New("non-recursive Unpin of a recursive pin returned nil"), false, desc
			}
			delete(m.pins, op.Node)
			delete(m.both, op.Node)
		} else {
			expected = !pinned || (cur.rec && !op.Rec)
			if !pinned && !errors.Is(err, ipfspinner.ErrNotPinned) && e.s.FaultCount() == faults {
				return fmt.Errorf("Unpin of an unpinned CID returned %q instead of ErrNotPinned", err), false, desc
			}
		}
	case "update":
		desc = fmt.Sprintf("Update(n%d -> n%d, unpin=%v)", op.Node, op.To, op.Unpin)
		to := op.To
		toCur, toPinned := m.pins[to]
		err = e.p.Update(ctx, c, e.w.cids[to], op.Unpin)
		if err == nil {
			if !pinned || !cur.rec {
				return errors.New("Update from a CID that is not recursively pinned returned nil"), false, desc
			}
			if to != op.Node {
				if toPinned && toCur.rec {
					return errors.New("Update to an already recursively pinned CID returned nil"), false, desc
				}
				// recursive supersedes direct: a direct pin of `to` is replaced, as in Pin
				// (an earlier version of this model tolerated the direct pin being kept
				// next to the recursive one; it then came back when the recursive pin
				// was moved on by another Update, see findings/C22-update-leaves-...)
				m.pins[to] = modelPin{rec: true, name: cur.name}
				if op.Unpin {
					delete(m.pins, op.Node)
					delete(m.both, op.Node)
				}
			}
		} else {
			expected = !pinned || !cur.rec || (toPinned && toCur.rec && to != op.Node) || !m.graphComplete(to) || !m.graphComplete(op.Node)
		}
	case "flush":
		desc = "Flush()"
		err = e.p.Flush(ctx)
	}
	if err != nil && !expected {
		// environment-made failures: injected fault or cancelled context during this op
		if e.s.FaultCount() != faults {
			expected = true
		}
	}
	return err, expected, desc
}

func drainPins(ch <-chan ipfspinner.StreamedPin) ([]ipfspinner.Pinned, error) {
	var out []ipfspinner.Pinned
	var err error
	for sp := range ch {
		if sp.Err != nil {
			err = sp.Err
			continue
		}
		out = append(out, sp.Pin)
	}
	return out, err
}

// checkQueries compares every pin query of the real pinner with the model and
// returns a description of the first disagreement ("" if none).
func (e *pinEnv) checkQueries() string {
	m := e.model
	ctx := context.Background()
	safe := m.traversalSafe()
	n := len(e.w.cids)
	viaOK := func(i int, via cid.Cid) bool {
		vi, ok := e.w.idx[via.KeyString()]
		if !ok {
			return false
		}
		for _, r := range m.indirectVia(i) {
			if r == vi {
				return true
			}
		}
		return false
	}
	for i := 0; i < n; i++ {
		c := e.w.cids[i]
		p, pinned := m.pins[i]
		_, hasBoth := m.both[i]
		via := m.indirectVia(i)
		// IsPinned / Any
		for _, any := range []bool{false, true} {
			var reason string
			var got bool
			var err error
			if any {
				reason, got, err = e.p.IsPinnedWithType(ctx, c, ipfspinner.Any)
			} else {
				reason, got, err = e.p.IsPinned(ctx, c)
			}
			if err != nil {
				if safe {
					return fmt.Sprintf("IsPinned(n%d) failed although every recursive graph is complete: %v", i, err)
				}
				continue
			}
			switch {
			case pinned && p.rec:
				if !got || reason != "recursive" {
					return fmt.Sprintf("IsPinned(n%d) = (%q,%v), model: recursive", i, reason, got)
				}
			case pinned:
				if !got || reason != "direct" {
					return fmt.Sprintf("IsPinned(n%d) = (%q,%v), model: direct", i, reason, got)
				}
			case len(via) > 0:
				rc, perr := cid.Decode(reason)
				if !got || perr != nil || !viaOK(i, rc) {
					return fmt.Sprintf("IsPinned(n%d) = (%q,%v), model: indirect via %v", i, reason, got, via)
				}
			default:
				if got {
					return fmt.Sprintf("IsPinned(n%d) = (%q,%v), model: not pinned", i, reason, got)
				}
			}
		}
		// single-mode queries
		if _, got, err := e.p.IsPinnedWithType(ctx, c, ipfspinner.Recursive); err != nil || got != (pinned && p.rec) {
			return fmt.Sprintf("IsPinnedWithType(n%d, Recursive) = %v (err %v), model %v", i, got, err, pinned && p.rec)
		}
		if _, got, err := e.p.IsPinnedWithType(ctx, c, ipfspinner.Direct); err != nil || got != ((pinned && !p.rec) || hasBoth) {
			return fmt.Sprintf("IsPinnedWithType(n%d, Direct) = %v (err %v), model %v", i, got, err, (pinned && !p.rec) || hasBoth)
		}
		if _, got, err := e.p.IsPinnedWithType(ctx, c, ipfspinner.Internal); err != nil || got {
			return fmt.Sprintf("IsPinnedWithType(n%d, Internal) = %v (err %v), model false", i, got, err)
		}
		if _, _, err := e.p.IsPinnedWithType(ctx, c, ipfspinner.Mode(77)); err == nil {
			return fmt.Sprintf("IsPinnedWithType(n%d, invalid mode) returned no error", i)
		}
		if reason, got, err := e.p.IsPinnedWithType(ctx, c, ipfspinner.Indirect); err == nil {
			want := len(via) > 0
			if got != want && !(pinned && p.rec) {
				return fmt.Sprintf("IsPinnedWithType(n%d, Indirect) = (%q,%v), model %v (via %v)", i, reason, got, want, via)
			}
			if got && want {
				rc, perr := cid.Decode(reason)
				if perr != nil || !viaOK(i, rc) {
					return fmt.Sprintf("IsPinnedWithType(n%d, Indirect) names %q, which is not a recursive root reaching it (model via %v)", i, reason, via)
				}
			}
		} else if safe {
			return fmt.Sprintf("IsPinnedWithType(n%d, Indirect) failed although every recursive graph is complete: %v", i, err)
		}
	}
	// batch queries
	byKey := func(ps []ipfspinner.Pinned) (map[int]ipfspinner.Pinned, string) {
		out := map[int]ipfspinner.Pinned{}
		for _, p := range ps {
			i, ok := e.w.idx[p.Key.KeyString()]
			if !ok {
				return nil, fmt.Sprintf("batch query returned unknown CID %s", p.Key)
			}
			if _, dup := out[i]; dup {
				return nil, fmt.Sprintf("batch query returned n%d twice", i)
			}
			out[i] = p
		}
		if len(out) != n {
			return nil, fmt.Sprintf("batch query returned %d entries for %d CIDs", len(out), n)
		}
		return out, ""
	}
	for _, names := range []bool{false, true} {
		var res []ipfspinner.Pinned
		var err error
		if names {
			res, err = e.p.CheckIfPinnedWithType(ctx, ipfspinner.Any, true, e.w.cids...)
		} else {
			res, err = e.p.CheckIfPinned(ctx, e.w.cids...)
		}
		if err != nil {
			if safe {
				return fmt.Sprintf("CheckIfPinned failed although every recursive graph is complete: %v", err)
			}
			continue
		}
		got, bad := byKey(res)
		if bad != "" {
			return "CheckIfPinned: " + bad
		}
		for i := 0; i < n; i++ {
			p, pinned := m.pins[i]
			g := got[i]
			via := m.indirectVia(i)
			switch {
			case pinned && p.rec:
				if g.Mode != ipfspinner.Recursive || (names && g.Name != p.name) {
					return fmt.Sprintf("CheckIfPinned(names=%v)[n%d] = mode %d name %q, model recursive %q", names, i, g.Mode, g.Name, p.name)
				}
			case pinned:
				if g.Mode != ipfspinner.Direct || (names && g.Name != p.name) {
					return fmt.Sprintf("CheckIfPinned(names=%v)[n%d] = mode %d name %q, model direct %q", names, i, g.Mode, g.Name, p.name)
				}
			case len(via) > 0:
				if g.Mode != ipfspinner.Indirect || !viaOK(i, g.Via) {
					return fmt.Sprintf("CheckIfPinned[n%d] = mode %d via %s, model indirect via %v", i, g.Mode, g.Via, via)
				}
			default:
				if g.Mode != ipfspinner.NotPinned {
					return fmt.Sprintf("CheckIfPinned[n%d] = mode %d, model not pinned", i, g.Mode)
				}
			}
		}
	}
	for _, mode := range []ipfspinner.Mode{ipfspinner.Recursive, ipfspinner.Direct} {
		res, err := e.p.CheckIfPinnedWithType(ctx, mode, true, e.w.cids...)
		if err != nil {
			return fmt.Sprintf("CheckIfPinnedWithType(%d) failed: %v", mode, err)
		}
		got, bad := byKey(res)
		if bad != "" {
			return "CheckIfPinnedWithType: " + bad
		}
		for i := 0; i < n; i++ {
			p, pinned := m.pins[i]
			want := ipfspinner.NotPinned
			wantName := ""
			if mode == ipfspinner.Recursive && pinned && p.rec {
				want, wantName = ipfspinner.Recursive, p.name
			}
			if mode == ipfspinner.Direct && pinned && !p.rec {
				want, wantName = ipfspinner.Direct, p.name
			}
			if bn, ok := m.both[i]; ok && mode == ipfspinner.Direct {
				want, wantName = ipfspinner.Direct, bn
			}
			if got[i].Mode != want || got[i].Name != wantName {
				return fmt.Sprintf("CheckIfPinnedWithType(%d,names)[n%d] = mode %d name %q, model mode %d name %q", mode, i, got[i].Mode, got[i].Name, want, wantName)
			}
		}
	}
	if res, err := e.p.CheckIfPinnedWithType(ctx, ipfspinner.Indirect, false, e.w.cids...); err == nil {
		got, bad := byKey(res)
		if bad != "" {
			return "CheckIfPinnedWithType(Indirect): " + bad
		}
		for i := 0; i < n; i++ {
			p, pinned := m.pins[i]
			via := m.indirectVia(i)
			want := len(via) > 0 && !(pinned && p.rec)
			if (got[i].Mode == ipfspinner.Indirect) != want {
				return fmt.Sprintf("CheckIfPinnedWithType(Indirect)[n%d] = mode %d, model indirect=%v (via %v)", i, got[i].Mode, want, via)
			}
			if want && !viaOK(i, got[i].Via) {
				return fmt.Sprintf("CheckIfPinnedWithType(Indirect)[n%d] via %s is not a recursive root reaching it", i, got[i].Via)
			}
		}
	} else if safe {
		return fmt.Sprintf("CheckIfPinnedWithType(Indirect) failed although every recursive graph is complete: %v", err)
	}
	// listings
	for _, rec := range []bool{false, true} {
		for _, detailed := range []bool{false, true} {
			var ch <-chan ipfspinner.StreamedPin
			if rec {
				ch = e.p.RecursiveKeys(ctx, detailed)
			} else {
				ch = e.p.DirectKeys(ctx, detailed)
			}
			ps, err := drainPins(ch)
			if err != nil {
				return fmt.Sprintf("key listing (recursive=%v) failed: %v", rec, err)
			}
			var got, want []string
			for _, p := range ps {
				i, ok := e.w.idx[p.Key.KeyString()]
				if !ok {
					return fmt.Sprintf("key listing returned unknown CID %s", p.Key)
				}
				s := fmt.Sprintf("n%d", i)
				if detailed {
					s += fmt.Sprintf("/%q/mode%d", p.Name, p.Mode)
				}
				got = append(got, s)
			}
			for i, p := range m.pins {
				if p.rec == rec {
					s := fmt.Sprintf("n%d", i)
					if detailed {
						md := ipfspinner.Direct
						if rec {
							md = ipfspinner.Recursive
						}
						s += fmt.Sprintf("/%q/mode%d", p.name, md)
					}
					want = append(want, s)
				}
			}
			if !rec {
				for i, nm := range m.both {
					s := fmt.Sprintf("n%d", i)
					if detailed {
						s += fmt.Sprintf("/%q/mode%d", nm, ipfspinner.Direct)
					}
					want = append(want, s)
				}
			}
			sort.Strings(got)
			sort.Strings(want)
			if strings.Join(got, ",") != strings.Join(want, ",") {
				return fmt.Sprintf("key listing (recursive=%v, detailed=%v) = [%s], model [%s]", rec, detailed, strings.Join(got, ","), strings.Join(want, ","))
			}
		}
	}
	return ""
}

var _ = ipld.ErrNotFound{}
