package dspinner

// C22 — pinner state follows the pin model and failed calls change nothing.

import (
	"context"
	"fmt"
	"testing"
	"time"

	"github.com/ipfs/boxo/internal/verifsim"
	"github.com/ipfs/boxo/internal/verifsim/simdag"
	"github.com/ipfs/boxo/internal/verifsim/simds"
	"pgregory.net/rapid"
)

type c22Case struct {
	Cfg       verifsim.Config `json:"cfg"`
	DAG       pinDAG          `json:"dag"`
	Ops       []pinOp         `json:"ops"`
	DagFaults []simdag.Fault  `json:"dag_faults"`
	UUIDSeed  uint64          `json:"uuid_seed"`
}

func c22Gen(t *rapid.T, tier string) any {
	c := &c22Case{}
	maxNodes, maxOps := 10, 12
	if tier == "thorough" {
		maxNodes, maxOps = 25, 20
	}
	c.DAG = genPinDAG(t, maxNodes)
	c.Ops = genPinOps(t, len(c.DAG.Links), maxOps, true)
	if rapid.IntRange(0, 2).Draw(t, "dagfaulty") == 0 {
		fg := rapid.Custom(func(t *rapid.T) simdag.Fault {
			return simdag.Fault{Op: "get", Nth: rapid.IntRange(1, 30).Draw(t, "nth")}
		})
		c.DagFaults = rapid.SliceOfN(fg, 1, 3).Draw(t, "dagfaults")
	}
	c.UUIDSeed = rapid.Uint64Range(1, 1<<30).Draw(t, "uuid")
	c.Cfg = verifsim.GenConfig(t, 300, 20000, time.Minute, nil)
	if rapid.Bool().Draw(t, "getmanyrev") {
		c.Cfg.Buggify = append(c.Cfg.Buggify, "getmany-reverse")
	}
	return c
}

func c22Run(t *testing.T, ci any, trace bool) *verifsim.Result {
	c := ci.(*c22Case)
	seedUUID(c.UUIDSeed)
	return verifsim.Run(t, c.Cfg, trace, func(s *verifsim.Sim) {
		d := simds.New(s, "ds", nil)
		d.IgnoreCtx = true
		dag := simdag.New(s, nil)
		w := buildPinWorld(c.DAG, dag)
		p, err := New(context.Background(), d, dag)
		if err != nil {
			panic(err)
		}
		env := &pinEnv{s: s, ds: d, dag: dag, w: w, p: p}
		env.model = &pinModel{w: w, d: c.DAG, pins: map[int]modelPin{}, both: map[int]string{}}
		s.Go("client", func() {
			for n, op := range c.Ops {
				before := env.model.clone()
				dag.Faults = c.DagFaults
				err, expected, desc := env.apply(op)
				dag.Faults = nil
				d.Pre, dag.Pre = nil, nil
				s.Logf("op#%d %s err=%v", n, desc, err != nil)
				if err != nil {
					env.model = before
					env.model.w = w
					if !expected {
						s.Failf("unexpected-error", "op#%d %s failed with %q although the model allows it and no fault was injected", n, desc, err)
						return
					}
				}
				// queries run without faults and without scheduling noise
				d.Quiet, dag.Quiet = true, true
				bad := env.checkQueries()
				d.Quiet, dag.Quiet = false, false
				if bad != "" {
					cls := "query-mismatch"
					if err != nil {
						cls = "failed-op-changed-state"
					}
					s.Failf(cls, "after op#%d %s (returned err=%v): %s", n, desc, err, bad)
					return
				}
			}
		})
		done := s.Loop()
		if !done && s.DeadlockSeen() {
			s.Failf("harness-deadlock", "client blocked forever:\n%s", verifsim.StuckStacks())
		}
		s.Drain()
		cerr := make(chan error, 1)
		go func() { cerr <- p.Close() }()
		select {
		case <-cerr:
		case <-time.After(time.Minute):
		}
	})
}

func TestVerifC22(t *testing.T) {
	verifsim.Main(t, verifsim.Harness{
		Property: "C22",
		Name:     "pinner-model",
		Gen:      c22Gen,
		New:      func() any { return &c22Case{} },
		Run:      c22Run,
		Sample: func(c any) any {
			cc := *c.(*c22Case)
			cc.Cfg.Tape = nil
			return map[string]any{"dag": cc.DAG, "ops": cc.Ops, "dag_faults": cc.DagFaults, "summary": fmt.Sprintf("%d nodes, %d ops", len(cc.DAG.Links), len(cc.Ops))}
		},
	})
}
