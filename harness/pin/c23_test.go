package dspinner

// C23 — pin state survives crashes consistently.
//
// A generated history runs on the real pinner over the simulated datastore,
// which logs every write. Then, for EVERY prefix of the write log (exhaustive
// per history) the surviving datastore is materialised, dspinner.New runs on it
// (dirty flag -> rebuildIndexes), and the reopened pinner is checked; the
// recovery itself is cut after each of its own writes once more (nested depth 1).

import (
	"context"
	"fmt"
	"path"
	"strings"
	"testing"
	"time"

	"github.com/ipfs/boxo/internal/verifsim"
	"github.com/ipfs/boxo/internal/verifsim/simdag"
	"github.com/ipfs/boxo/internal/verifsim/simds"
	ipfspinner "github.com/ipfs/boxo/pinning/pinner"
	"github.com/ipfs/boxo/pinning/pinner/dsindex"
	ds "github.com/ipfs/go-datastore"
	"pgregory.net/rapid"
)

type c23Case struct {
	Cfg      verifsim.Config `json:"cfg"`
	DAG      pinDAG          `json:"dag"`
	Ops      []pinOp         `json:"ops"`
	AutoSync bool            `json:"autosync"`
	UUIDSeed uint64          `json:"uuid_seed"`
}

func c23Gen(t *rapid.T, tier string) any {
	c := &c23Case{}
	maxNodes, maxOps := 6, 6
	if tier == "thorough" {
		maxNodes, maxOps = 10, 8
	}
	c.DAG = genPinDAG(t, maxNodes)
	c.DAG.Missing = nil
	c.Ops = genPinOps(t, len(c.DAG.Links), maxOps, false)
	c.AutoSync = rapid.IntRange(0, 3).Draw(t, "autosync") != 0
	c.UUIDSeed = rapid.Uint64Range(1, 1<<30).Draw(t, "uuid")
	c.Cfg = verifsim.GenConfig(t, 16, 200000, time.Minute, nil)
	return c
}

type c23Boundary struct {
	logLen int       // write-log length when the op started
	before *pinModel // model before the op
	op     pinOp
}

// c23Consistent inspects the raw datastore of a reopened pinner: every index
// entry points at a pin record with that CID / mode / name, and every pin record
// is indexed.
func c23Consistent(ctx context.Context, d *simds.DS, p *pinner) string {
	type rec struct {
		pp      *pin
		inIndex bool
		inName  bool
	}
	recs := map[string]*rec{}
	for _, k := range d.Keys() {
		if strings.HasPrefix(k, pinKeyPath+"/") {
			id := path.Base(k)
			pp, err := decodePin(id, d.Data[k])
			if err != nil {
				return fmt.Sprintf("pin record %s does not decode: %v", id, err)
			}
			recs[id] = &rec{pp: pp}
		}
	}
	bad := ""
	chk := func(idx dsindex.Indexer, mode ipfspinner.Mode, label string) {
		idx.ForEach(ctx, "", func(key, value string) bool {
			r, ok := recs[value]
			switch {
			case !ok:
				bad = fmt.Sprintf("%s index entry -> pin %s, but there is no such pin record", label, value)
			case r.pp.Cid.KeyString() != key:
				bad = fmt.Sprintf("%s index entry for pin %s has a different CID than the record", label, value)
			case r.pp.Mode != mode:
				bad = fmt.Sprintf("%s index entry for pin %s but the record has mode %d", label, value, r.pp.Mode)
			default:
				r.inIndex = true
			}
			return bad == ""
		})
	}
	chk(p.cidRIndex, ipfspinner.Recursive, "recursive")
	if bad != "" {
		return bad
	}
	chk(p.cidDIndex, ipfspinner.Direct, "direct")
	if bad != "" {
		return bad
	}
	p.nameIndex.ForEach(ctx, "", func(key, value string) bool {
		r, ok := recs[value]
		switch {
		case !ok:
			bad = fmt.Sprintf("name index entry %q -> pin %s, but there is no such pin record", key, value)
		case r.pp.Name != key:
			bad = fmt.Sprintf("name index entry %q -> pin %s whose record is named %q", key, value, r.pp.Name)
		default:
			r.inName = true
		}
		return bad == ""
	})
	if bad != "" {
		return bad
	}
	for id, r := range recs {
		if !r.inIndex {
			return fmt.Sprintf("pin record %s (mode %d) has no CID index entry", id, r.pp.Mode)
		}
		if r.pp.Name != "" && !r.inName {
			return fmt.Sprintf("pin record %s named %q has no name index entry", id, r.pp.Name)
		}
	}
	return ""
}

func c23Run(t *testing.T, ci any, trace bool) *verifsim.Result {
	c := ci.(*c23Case)
	seedUUID(c.UUIDSeed)
	return verifsim.Run(t, c.Cfg, trace, func(s *verifsim.Sim) {
		d := simds.New(s, "ds", nil)
		d.IgnoreCtx = true
		dag := simdag.New(s, nil)
		dag.Quiet = true
		w := buildPinWorld(c.DAG, dag)
		ctx := context.Background()
		p, err := New(ctx, d, dag)
		if err != nil {
			panic(err)
		}
		p.SetAutosync(c.AutoSync)
		env := &pinEnv{s: s, ds: d, dag: dag, w: w, p: p}
		env.model = &pinModel{w: w, d: c.DAG, pins: map[int]modelPin{}, both: map[int]string{}}
		var bounds []c23Boundary
		s.Go("client", func() {
			for n, op := range c.Ops {
				bounds = append(bounds, c23Boundary{logLen: len(d.Log), before: env.model.clone(), op: op})
				before := env.model.clone()
				err, _, desc := env.apply(op)
				s.Logf("op#%d %s err=%v writes=%d", n, desc, err != nil, len(d.Log))
				if err != nil {
					env.model = before
				}
			}
		})
		if !s.Loop() {
			s.Failf("harness-deadlock", "history did not finish:\n%s", verifsim.StuckStacks())
			return
		}
		finalModel := env.model
		log := d.Log
		s.Drain()
		p.Close()

		// which op was in progress at write k, and what was pinned before it
		opAt := func(k int) (*pinModel, *pinOp) {
			if k >= len(log) && len(bounds) > 0 {
				return finalModel, nil
			}
			var b *c23Boundary
			for i := range bounds {
				if bounds[i].logLen <= k {
					b = &bounds[i]
				}
			}
			if b == nil {
				return &pinModel{w: w, d: c.DAG, pins: map[int]modelPin{}}, nil
			}
			return b.before, &b.op
		}
		crashStates := 0
		check := func(store *simds.DS, k int, nested string) bool {
			store.IgnoreCtx = true
			store.Quiet = true
			rp, err := New(ctx, store, dag)
			if err != nil {
				s.Failf("reopen-failed", "cut after write %d%s: dspinner.New failed: %v", k, nested, err)
				return false
			}
			defer rp.Close()
			crashStates++
			if bad := c23Consistent(ctx, store, rp); bad != "" {
				s.Failf("inconsistent-after-crash", "cut after write %d of %d%s (%s): %s", k, len(log), nested, c23Describe(log, k), bad)
				return false
			}
			before, op := opAt(k)
			for i, mp := range before.pins {
				if op != nil {
					if op.Kind == "unpin" && op.Node == i {
						continue
					}
					if op.Kind == "update" && op.Unpin && op.Node == i {
						continue
					}
				}
				_, pinned, err := rp.IsPinnedWithType(ctx, w.cids[i], ipfspinner.Recursive)
				if err == nil && !pinned {
					_, pinned, err = rp.IsPinnedWithType(ctx, w.cids[i], ipfspinner.Direct)
				}
				if err != nil || !pinned {
					s.Failf("pin-lost-after-crash", "cut after write %d of %d%s (%s): n%d was pinned (recursive=%v) before the interrupted operation %+v, which does not unpin it, but is not pinned after reopening (err=%v)", k, len(log), nested, c23Describe(log, k), i, mp.rec, op, err)
					return false
				}
			}
			return true
		}
		for k := 0; k <= len(log); k++ {
			store := simds.FromLog(s, "crash", log, k)
			// run recovery once while logging its writes
			if !check(store, k, "") {
				return
			}
			rlog := store.Log
			if len(rlog) == 0 {
				continue
			}
			s.Probe("recovery-wrote")
			for j := 0; j < len(rlog); j++ {
				base := simds.FromLog(s, "crash2", log, k)
				for _, wr := range rlog[:j] {
					switch wr.Kind {
					case "put":
						base.Data[wr.Key] = wr.Val
					case "delete":
						delete(base.Data, wr.Key)
					}
				}
				if !check(base, k, fmt.Sprintf(" + recovery cut after its write %d of %d", j, len(rlog))) {
					return
				}
			}
		}
		s.FaultN("crash-cut", crashStates)
	})
}

func c23Describe(log []simds.Write, k int) string {
	if k == 0 {
		return "nothing written"
	}
	w := log[k-1]
	key := w.Key
	if len(key) > 60 {
		key = key[:40] + ".." + key[len(key)-12:]
	}
	return fmt.Sprintf("last surviving write: %s %s", w.Kind, key)
}

var _ = ds.ErrNotFound

func TestVerifC23(t *testing.T) {
	verifsim.Main(t, verifsim.Harness{
		Property: "C23",
		Name:     "pinner-crash",
		Gen:      c23Gen,
		New:      func() any { return &c23Case{} },
		Run:      c23Run,
		Sample: func(c any) any {
			cc := *c.(*c23Case)
			return map[string]any{"dag": cc.DAG, "ops": cc.Ops, "autosync": cc.AutoSync}
		},
	})
}
