package peering

// C46 — peering keeps reconnecting only while it should.
// Real: PeeringService and its peer handlers (timers on the fake clock, seeded
// back-off jitter). Simulated: the libp2p host / network (records every Connect
// with the state of its context, answers per plan, emits Connected /
// Disconnected notifications as separate scheduling points).

import (
	"context"
	"errors"
	"fmt"
	"runtime"
	"testing"
	"time"

	"github.com/ipfs/boxo/internal/verifsim"
	"github.com/libp2p/go-libp2p/core/connmgr"
	"github.com/libp2p/go-libp2p/core/host"
	"github.com/libp2p/go-libp2p/core/network"
	"github.com/libp2p/go-libp2p/core/peer"
	"pgregory.net/rapid"
)

type c46Op struct {
	Kind  string `json:"k"` // add remove start stop sleep | drop inbound
	Peer  int    `json:"p,omitempty"`
	DurMS int    `json:"d,omitempty"`
}

type c46Case struct {
	Cfg     verifsim.Config `json:"cfg"`
	NPeers  int             `json:"npeers"`
	Control []c46Op         `json:"control"`
	// Control2 is a second lifecycle task (start / stop / sleep only), so that Start
	// and Stop calls can overlap each other and the first task's add / remove
	Control2       []c46Op  `json:"control2,omitempty"`
	Env            []c46Op  `json:"env"`
	Outcomes       []string `json:"outcomes"`        // per Connect call: fail ok ok-drop ; exhausted => fail
	SettleFailures int      `json:"settle_failures"` // how many maximal back-offs the settle phase covers
}

func c46Gen(t *rapid.T, tier string) any {
	c := &c46Case{}
	c.NPeers = rapid.IntRange(1, 3).Draw(t, "npeers")
	durs := []int{1, 100, 4999, 5000, 7500, 60000, 600000}
	ctl := rapid.Custom(func(t *rapid.T) c46Op {
		op := c46Op{Kind: rapid.SampledFrom([]string{"add", "add", "remove", "start", "start", "stop", "sleep", "sleep"}).Draw(t, "k")}
		op.Peer = rapid.IntRange(0, c.NPeers-1).Draw(t, "p")
		if op.Kind == "sleep" {
			op.DurMS = rapid.SampledFrom(durs).Draw(t, "d")
		}
		return op
	})
	env := rapid.Custom(func(t *rapid.T) c46Op {
		op := c46Op{Kind: rapid.SampledFrom([]string{"drop", "drop", "inbound", "flap", "flap", "sleep", "sleep"}).Draw(t, "k")}
		op.Peer = rapid.IntRange(0, c.NPeers-1).Draw(t, "p")
		if op.Kind == "sleep" {
			op.DurMS = rapid.SampledFrom(durs).Draw(t, "d")
		}
		return op
	})
	maxOps := 10
	if tier == "thorough" {
		maxOps = 18
	}
	c.Control = rapid.SliceOfN(ctl, 1, maxOps).Draw(t, "control")
	c.Env = rapid.SliceOfN(env, 0, maxOps).Draw(t, "env")
	if rapid.IntRange(0, 2).Draw(t, "withctl2") == 0 {
		ctl2 := rapid.Custom(func(t *rapid.T) c46Op {
			op := c46Op{Kind: rapid.SampledFrom([]string{"start", "stop", "stop", "sleep"}).Draw(t, "k2")}
			if op.Kind == "sleep" {
				op.DurMS = rapid.SampledFrom(durs).Draw(t, "d2")
			}
			return op
		})
		c.Control2 = rapid.SliceOfN(ctl2, 1, 4).Draw(t, "control2")
	}
	c.Outcomes = rapid.SliceOfN(rapid.SampledFrom([]string{"fail", "fail", "ok", "ok-drop"}), 0, 10).Draw(t, "outcomes")
	c.SettleFailures = rapid.SampledFrom([]int{2, 2, 6, 20}).Draw(t, "settle")
	if tier == "thorough" {
		c.SettleFailures = rapid.SampledFrom([]int{2, 6, 20, 100}).Draw(t, "settle2")
	}
	c.Cfg = verifsim.GenConfig(t, 300, 6000, 3*time.Hour, []time.Duration{time.Millisecond, time.Second, initialDelay, time.Minute, maxBackoff})
	return c
}

type c46Conn struct {
	network.Conn
	p peer.ID
}

func (c *c46Conn) RemotePeer() peer.ID { return c.p }

type c46Attempt struct {
	peer      int
	at        time.Duration
	seq       int64
	cancelled bool
	stalls    time.Duration
	goid      uint64 // goroutine that made the call (ids grow with creation order)
}

type c46Net struct {
	network.Network
	h *c46Host
}

type c46Host struct {
	host.Host
	s         *verifsim.Sim
	net       *c46Net
	ids       []peer.ID
	connected map[peer.ID]bool
	notifees  []network.Notifiee
	attempts  []c46Attempt
	outcomes  []string
	ncalls    int
	settling  bool
}

func (h *c46Host) idx(p peer.ID) int {
	for i, id := range h.ids {
		if id == p {
			return i
		}
	}
	return -1
}

func (h *c46Host) Network() network.Network         { return h.net }
func (h *c46Host) ConnManager() connmgr.ConnManager { return connmgr.NullConnMgr{} }
func (h *c46Host) ID() peer.ID                      { return peer.ID("self") }

func (h *c46Host) notify(p peer.ID, connected bool) {
	for _, n := range append([]network.Notifiee(nil), h.notifees...) {
		h.s.Yield("net.notify")
		if connected {
			n.Connected(h.net, &c46Conn{p: p})
		} else {
			n.Disconnected(h.net, &c46Conn{p: p})
		}
	}
}

func (h *c46Host) setConnected(p peer.ID, v bool) {
	if h.connected[p] == v {
		return
	}
	h.connected[p] = v
	h.s.Logf("conn p%d=%v", h.idx(p), v)
	h.notify(p, v)
}

func (h *c46Host) Connect(ctx context.Context, pi peer.AddrInfo) error {
	a := c46Attempt{peer: h.idx(pi.ID), at: h.s.Now(), seq: h.s.Seq(), cancelled: ctx.Err() != nil, stalls: h.s.StallTime(), goid: runtime.VerifGoid()}
	h.attempts = append(h.attempts, a)
	h.s.Logf("connect p%d cancelled=%v", a.peer, a.cancelled)
	k := h.ncalls
	h.ncalls++
	h.s.Yield("host.connect")
	if err := ctx.Err(); err != nil {
		return err
	}
	if h.connected[pi.ID] {
		return nil
	}
	out := "fail"
	if !h.settling && k < len(h.outcomes) {
		out = h.outcomes[k]
	}
	switch out {
	case "ok":
		h.setConnected(pi.ID, true)
		return nil
	case "ok-drop":
		h.setConnected(pi.ID, true)
		h.s.Fault("connection-dropped-right-after-dial")
		h.setConnected(pi.ID, false)
		return nil
	}
	h.s.Fault("dial-failure")
	return errors.New("c46: dial failed")
}

func (n *c46Net) Connectedness(p peer.ID) network.Connectedness {
	if n.h.connected[p] {
		return network.Connected
	}
	return network.NotConnected
}

func (n *c46Net) Notify(nf network.Notifiee) {
	n.h.s.Yield("net.notify")
	n.h.notifees = append(n.h.notifees, nf)
}
func (n *c46Net) StopNotify(nf network.Notifiee) {
	n.h.s.Yield("net.stopnotify")
	defer n.h.s.Yield("net.stopnotify.done")
	for i, x := range n.h.notifees {
		if x == nf {
			n.h.notifees = append(n.h.notifees[:i:i], n.h.notifees[i+1:]...)
			return
		}
	}
}

func c46Run(t *testing.T, ci any, trace bool) *verifsim.Result {
	c := ci.(*c46Case)
	return verifsim.Run(t, c.Cfg, trace, func(s *verifsim.Sim) {
		h := &c46Host{s: s, connected: map[peer.ID]bool{}, outcomes: c.Outcomes}
		h.net = &c46Net{h: h}
		for i := 0; i < c.NPeers; i++ {
			h.ids = append(h.ids, peer.ID(fmt.Sprintf("peer-%d", i)))
		}
		ps := NewPeeringService(h)

		// model of what should be going on
		registered := map[int]bool{}
		running, stopped := false, false
		allowance := map[int]int{} // cancelled-context Connect calls still tolerated per peer
		stopSeq := map[int]int64{} // event seq after which a live Connect for the peer is a violation (0 = none)
		// stopGoid: id of a goroutine created right after the stop / removal returned.
		// A tolerated late Connect (cancelled context) comes from a reconnect goroutine
		// whose timer had fired before; a Connect made by a goroutine that was created
		// after the stop means a timer fired, or was armed, after it.
		stopGoid := map[int]uint64{}
		freshGoid := func() uint64 {
			ch := make(chan uint64, 1)
			go func() { ch <- runtime.VerifGoid() }()
			return <-ch
		}
		checked := 0
		checkAttempts := func() {
			for ; checked < len(h.attempts); checked++ {
				a := h.attempts[checked]
				if a.peer < 0 {
					s.Failf("connect-unknown-peer", "Connect was called for a peer that was never added")
					return
				}
				if q := stopSeq[a.peer]; q != 0 && a.seq > q {
					if g := stopGoid[a.peer]; g != 0 && a.goid > g {
						s.Failf("reconnect-timer-fired-after-stop", "Connect (context cancelled: %v) was called for p%d at t=%v by a goroutine that was created after the service had been stopped / the peer removed: a reconnect timer was still armed, or was armed again, after the stop", a.cancelled, a.peer, a.at)
						return
					}
					if !a.cancelled {
						s.Failf("dial-after-stop", "Connect with a live context was started for p%d at t=%v although the service was stopped / the peer was removed before (event %d > %d)", a.peer, a.at, a.seq, q)
						return
					}
					allowance[a.peer]--
					if allowance[a.peer] < 0 {
						s.Failf("reconnect-rearmed-after-stop", "more Connect calls (with an already cancelled context) were started for p%d after the service was stopped / the peer was removed than the one whose timer had already fired: a reconnect timer was re-armed after the stop (t=%v)", a.peer, a.at)
						return
					}
				}
			}
		}
		s.OnStep(func() {
			checkAttempts()
			// (a) every back-off delay lies in (0, maxBackoff]
			for id, ph := range ps.peers {
				if ph.nextDelay <= 0 || ph.nextDelay > maxBackoff {
					s.Failf("backoff-out-of-range", "peer %d has nextDelay=%v outside (0, %v]", h.idx(id), ph.nextDelay, maxBackoff)
				}
			}
		})

		control := func(name string, ops []c46Op) func() {
			return func() {
				for _, op := range ops {
					s.Logf("%s %s p%d %dms", name, op.Kind, op.Peer, op.DurMS)
					switch op.Kind {
					case "add":
						ps.AddPeer(peer.AddrInfo{ID: h.ids[op.Peer]})
						if !registered[op.Peer] {
							registered[op.Peer] = true
							if !stopped {
								stopSeq[op.Peer] = 0
								stopGoid[op.Peer] = 0
							} else if stopSeq[op.Peer] == 0 {
								// added to a stopped service: no dial with a live context, ever
								stopSeq[op.Peer] = s.Seq()
								stopGoid[op.Peer] = freshGoid()
							}
						}
					case "remove":
						ps.RemovePeer(h.ids[op.Peer])
						if registered[op.Peer] {
							registered[op.Peer] = false
							stopSeq[op.Peer] = s.Seq()
							stopGoid[op.Peer] = freshGoid()
							allowance[op.Peer]++
						}
					case "start":
						err := ps.Start()
						if err == nil && !stopped {
							running = true
						}
					case "stop":
						ps.Stop()
						if !stopped {
							stopped, running = true, false
							q := s.Seq()
							for i := 0; i < c.NPeers; i++ {
								if registered[i] {
									allowance[i]++
								}
								if stopSeq[i] == 0 {
									stopSeq[i] = q
									stopGoid[i] = freshGoid()
								}
							}
						}
					case "sleep":
						time.Sleep(time.Duration(op.DurMS) * time.Millisecond)
					}
				}
			}
		}
		s.Go("control", control("ctl", c.Control))
		if len(c.Control2) > 0 {
			s.Go("control2", control("ctl2", c.Control2))
		}
		s.Go("env", func() {
			for _, op := range c.Env {
				// a scheduling point of its own, so that connection events can land
				// while a dial is parked without simulated time having to pass
				s.Yield("env.op")
				s.Logf("env %s p%d %dms", op.Kind, op.Peer, op.DurMS)
				switch op.Kind {
				case "drop":
					h.setConnected(h.ids[op.Peer], false)
				case "inbound":
					h.setConnected(h.ids[op.Peer], true)
				case "flap":
					// an inbound connection that is gone again at once
					h.setConnected(h.ids[op.Peer], true)
					s.Yield("env.flap")
					h.setConnected(h.ids[op.Peer], false)
				case "sleep":
					time.Sleep(time.Duration(op.DurMS) * time.Millisecond)
				}
			}
		})
		done := s.Loop()
		if !done && s.DeadlockSeen() {
			s.Failf("harness-deadlock", "control/env tasks blocked forever:\n%s", verifsim.StuckStacks())
		}
		checkAttempts()
		if s.Failed() || !done {
			s.Drain()
			ps.Stop()
			return
		}
		// ---- settle: all dials fail from now on ----
		h.settling = true
		if running {
			// (b) every registered, disconnected peer keeps getting attempts, at most maxBackoff apart
			last := map[int]time.Duration{}
			start := s.Now()
			for i := 0; i < c.NPeers; i++ {
				last[i] = start
			}
			from := len(h.attempts)
			s.Settle(time.Duration(c.SettleFailures)*maxBackoff + time.Minute)
			checkAttempts()
			for _, a := range h.attempts[from:] {
				if gap := a.at - last[a.peer]; gap > maxBackoff+time.Second {
					s.Failf("no-reconnect-scheduled", "p%d stayed disconnected for %v without a reconnect attempt while the service was running (limit %v)", a.peer, gap, maxBackoff)
				}
				last[a.peer] = a.at
			}
			end := s.Now()
			for i := 0; i < c.NPeers; i++ {
				if registered[i] && !h.connected[h.ids[i]] {
					if gap := end - last[i]; gap > maxBackoff+time.Second {
						s.Failf("no-reconnect-scheduled", "p%d is a registered peering peer, disconnected, the service is running, but no reconnect attempt was made for %v (limit %v)", i, gap, maxBackoff)
					}
				}
			}
		} else {
			// (c) observation window after stop: six maximal back-offs
			s.Settle(time.Hour)
			checkAttempts()
		}
		s.Drain()
		ps.Stop()
	})
}

func TestVerifC46(t *testing.T) {
	verifsim.Main(t, verifsim.Harness{
		Property: "C46",
		Name:     "peering",
		Gen:      c46Gen,
		New:      func() any { return &c46Case{} },
		Run:      c46Run,
		Sample: func(c any) any {
			cc := *c.(*c46Case)
			cc.Cfg.Tape = nil
			return cc
		},
	})
}
