package blockstore

// C01 — the default blockstore (optionally inside the identity store) answers
// like a map from multihash to bytes. One client drives a rapid-generated
// history against the real blockstore over the simulated datastore, which
// injects errors before an operation takes effect and cuts/cancels key
// enumeration at every position; the enumeration goroutine and its consumer are
// interleaved by the scheduler.

import (
	"bytes"
	"context"
	"encoding/base32"
	"fmt"
	"sort"
	"strings"
	"testing"
	"time"

	"github.com/ipfs/boxo/internal/verifsim"
	"github.com/ipfs/boxo/internal/verifsim/simds"
	blocks "github.com/ipfs/go-block-format"
	cid "github.com/ipfs/go-cid"
	ipld "github.com/ipfs/go-ipld-format"
	mh "github.com/multiformats/go-multihash"
	"pgregory.net/rapid"
)

type c01Op struct {
	Kind   string `json:"k"` // put putmany delete get has getsize view allkeys allkeyserr
	Key    int    `json:"key,omitempty"`
	Keys   []int  `json:"keys,omitempty"`
	Form   int    `json:"form,omitempty"`   // 0 v1-raw, 1 v1-dag-pb, 2 v0 (only sha2-256 keys), 3 v1-dag-json (two-byte codec varint)
	Cancel int    `json:"cancel,omitempty"` // enumeration: cancel the context after this many keys (0 = never)
}

type c01Case struct {
	Cfg          verifsim.Config `json:"cfg"`
	WriteThrough bool            `json:"write_through"`
	NoPrefix     bool            `json:"no_prefix"`
	IdStore      bool            `json:"idstore"`
	Ops          []c01Op         `json:"ops"`
	Faults       []simds.Fault   `json:"faults"`
}

// key pool: 0..5 sha2-256 blocks (0 = empty block), 6 blake2b-256, 7..8 identity
const c01NKeys = 10

func c01Data(i int) []byte {
	switch i {
	case 0:
		return []byte{}
	case 7:
		return []byte{}
	case 8:
		return []byte("inline!")
	case 9:
		// identity CID whose payload length needs a two-byte varint
		return bytes.Repeat([]byte("0123456789abcdef"), 9)
	}
	return bytes.Repeat([]byte{byte('A' + i)}, i*7+1)
}

func c01Hash(i int) mh.Multihash {
	code := uint64(mh.SHA2_256)
	if i == 6 {
		code = mh.BLAKE2B_MIN + 31
	}
	if i >= 7 {
		code = mh.IDENTITY
	}
	h, err := mh.Sum(c01Data(i), code, -1)
	if err != nil {
		panic(err)
	}
	return h
}

func c01Cid(i, form int) cid.Cid {
	h := c01Hash(i)
	switch {
	case form == 2 && i < 6:
		return cid.NewCidV0(h)
	case form == 1:
		return cid.NewCidV1(cid.DagProtobuf, h)
	case form == 3:
		// a codec whose number needs a two-byte varint (dag-json, 0x0129)
		return cid.NewCidV1(cid.DagJSON, h)
	}
	return cid.NewCidV1(cid.Raw, h)
}

func c01Block(i, form int) blocks.Block {
	b, err := blocks.NewBlockWithCid(c01Data(i), c01Cid(i, form))
	if err != nil {
		panic(err)
	}
	return b
}

func c01Gen(t *rapid.T, tier string) any {
	c := &c01Case{}
	c.WriteThrough = rapid.Bool().Draw(t, "wt")
	c.NoPrefix = rapid.Bool().Draw(t, "noprefix")
	c.IdStore = rapid.Bool().Draw(t, "idstore")
	maxOps := 20
	if tier == "thorough" {
		maxOps = 40
	}
	kinds := []string{"put", "put", "putmany", "delete", "get", "has", "getsize", "view", "allkeys", "allkeyserr"}
	opGen := rapid.Custom(func(t *rapid.T) c01Op {
		op := c01Op{Kind: rapid.SampledFrom(kinds).Draw(t, "kind"), Form: rapid.IntRange(0, 3).Draw(t, "form")}
		switch op.Kind {
		case "putmany":
			op.Keys = rapid.SliceOfN(rapid.IntRange(0, c01NKeys-1), 0, 4).Draw(t, "keys")
		case "allkeys", "allkeyserr":
			op.Cancel = rapid.SampledFrom([]int{0, 0, 1, 2, 3}).Draw(t, "cancel")
		default:
			op.Key = rapid.IntRange(0, c01NKeys-1).Draw(t, "key")
		}
		return op
	})
	c.Ops = rapid.SliceOfN(opGen, 1, maxOps).Draw(t, "ops")
	if rapid.IntRange(0, 1).Draw(t, "faulty") == 1 {
		fg := rapid.Custom(func(t *rapid.T) simds.Fault {
			return simds.Fault{
				Op:  rapid.SampledFrom([]string{"query-next", "query-next", "query", "has", "put", "get", "getsize", "delete", "commit", "batch"}).Draw(t, "fop"),
				Nth: rapid.IntRange(1, 6).Draw(t, "nth"),
			}
		})
		c.Faults = rapid.SliceOfN(fg, 1, 4).Draw(t, "faults")
	}
	c.Cfg = verifsim.GenConfig(t, 200, 3000, time.Minute, nil)
	if rapid.IntRange(0, 3).Draw(t, "bug") == 0 {
		c.Cfg.Buggify = append(c.Cfg.Buggify, "query-reverse")
	}
	if rapid.IntRange(0, 1).Draw(t, "postyield") == 0 {
		c.Cfg.Buggify = append(c.Cfg.Buggify, "ds-post-yield")
	}
	if rapid.IntRange(0, 1).Draw(t, "batchkeeps") == 0 {
		c.Cfg.Buggify = append(c.Cfg.Buggify, "batch-keeps-ops")
	}
	return c
}

func c01DsKey(h mh.Multihash, noPrefix bool) string {
	k := "/" + base32.StdEncoding.WithPadding(base32.NoPadding).EncodeToString(h)
	if !noPrefix {
		k = "/blocks" + k
	}
	return k
}

func c01Run(t *testing.T, ci any, trace bool) *verifsim.Result {
	c := ci.(*c01Case)
	return verifsim.Run(t, c.Cfg, trace, func(s *verifsim.Sim) {
		d := simds.New(s, "ds", c.Faults)
		opts := []Option{WriteThrough(c.WriteThrough)}
		if c.NoPrefix {
			opts = append(opts, NoPrefix())
		}
		var bs Blockstore = NewBlockstore(d, opts...)
		if c.IdStore {
			bs = NewIdStore(bs)
		}
		viewer, _ := bs.(Viewer)
		model := map[string][]byte{} // multihash -> bytes
		bg := context.Background()
		isID := func(i int) bool { return c.IdStore && i >= 7 }

		checkState := func(after string) {
			// the datastore holds exactly the model (keys = base32 multihash, values = bytes)
			want := map[string][]byte{}
			for h, v := range model {
				want[c01DsKey(mh.Multihash(h), c.NoPrefix)] = v
			}
			if len(want) != len(d.Data) {
				s.Failf("state-mismatch", "after %s: datastore has %d keys %v, model has %d", after, len(d.Data), d.Keys(), len(want))
				return
			}
			for k, v := range want {
				got, ok := d.Data[k]
				if !ok || !bytes.Equal(got, v) {
					s.Failf("state-mismatch", "after %s: datastore key %s = %q (present=%v), model says %q", after, k, got, ok, v)
					return
				}
			}
			if c.IdStore {
				for _, w := range d.Log {
					for _, i := range []int{7, 8} {
						if w.Key == c01DsKey(c01Hash(i), c.NoPrefix) {
							s.Failf("identity-written", "after %s: identity multihash of key %d was written to the backing store (%s)", after, i, w.Kind)
						}
					}
				}
			}
		}

		s.Go("client", func() {
			for n, op := range c.Ops {
				desc := fmt.Sprintf("op#%d %s k%d %v form%d", n, op.Kind, op.Key, op.Keys, op.Form)
				s.Logf("%s", desc)
				faultsBefore := s.FaultCount()
				switch op.Kind {
				case "put":
					err := bs.Put(bg, c01Block(op.Key, op.Form))
					if err == nil {
						if !isID(op.Key) {
							if _, ok := model[string(c01Hash(op.Key))]; !ok || c.WriteThrough {
								model[string(c01Hash(op.Key))] = c01Data(op.Key)
							}
						}
					} else if s.FaultCount() == faultsBefore {
						s.Failf("unexpected-error", "%s: Put failed without an injected fault: %v", desc, err)
					}
				case "putmany":
					var bl []blocks.Block
					for _, k := range op.Keys {
						bl = append(bl, c01Block(k, op.Form))
					}
					err := bs.PutMany(bg, bl)
					if err == nil {
						for _, k := range op.Keys {
							if !isID(k) {
								model[string(c01Hash(k))] = c01Data(k)
							}
						}
					} else if s.FaultCount() == faultsBefore {
						s.Failf("unexpected-error", "%s: PutMany failed without an injected fault: %v", desc, err)
					}
				case "delete":
					err := bs.DeleteBlock(bg, c01Cid(op.Key, op.Form))
					if err == nil {
						if !isID(op.Key) {
							delete(model, string(c01Hash(op.Key)))
						}
					} else if s.FaultCount() == faultsBefore {
						s.Failf("unexpected-error", "%s: DeleteBlock failed without an injected fault: %v", desc, err)
					}
				case "get", "view":
					var data []byte
					var err error
					var gotCid cid.Cid
					if op.Kind == "get" {
						var b blocks.Block
						b, err = bs.Get(bg, c01Cid(op.Key, op.Form))
						if b != nil {
							data = append([]byte{}, b.RawData()...)
							gotCid = b.Cid()
						}
					} else {
						if viewer == nil {
							continue
						}
						err = viewer.View(bg, c01Cid(op.Key, op.Form), func(b []byte) error {
							data = append([]byte{}, b...)
							return nil
						})
					}
					want, present := model[string(c01Hash(op.Key))]
					if isID(op.Key) {
						want, present = c01Data(op.Key), true
					}
					switch {
					case err == nil:
						if !present {
							s.Failf("wrong-answer", "%s returned %q but the model says absent", desc, data)
						} else if !bytes.Equal(data, want) {
							s.Failf("wrong-answer", "%s returned %q, model says %q", desc, data, want)
						}
						if op.Kind == "get" && !gotCid.Equals(c01Cid(op.Key, op.Form)) {
							s.Failf("wrong-answer", "%s returned a block with CID %s", desc, gotCid)
						}
					case ipld.IsNotFound(err):
						if present && s.FaultCount() == faultsBefore {
							s.Failf("wrong-answer", "%s returned not-found but the model holds %q", desc, want)
						} else if present {
							s.Failf("wrong-answer", "%s returned not-found (with an injected fault) but the model holds %q: a failing read must fail, not lie", desc, want)
						}
					default:
						if s.FaultCount() == faultsBefore {
							s.Failf("unexpected-error", "%s failed without an injected fault: %v", desc, err)
						}
					}
				case "has":
					has, err := bs.Has(bg, c01Cid(op.Key, op.Form))
					_, present := model[string(c01Hash(op.Key))]
					if isID(op.Key) {
						present = true
					}
					if err == nil && has != present {
						s.Failf("wrong-answer", "%s returned %v, model says %v", desc, has, present)
					}
					if err != nil && s.FaultCount() == faultsBefore {
						s.Failf("unexpected-error", "%s failed without an injected fault: %v", desc, err)
					}
				case "getsize":
					n, err := bs.GetSize(bg, c01Cid(op.Key, op.Form))
					want, present := model[string(c01Hash(op.Key))]
					if isID(op.Key) {
						want, present = c01Data(op.Key), true
					}
					switch {
					case err == nil:
						if !present || n != len(want) {
							s.Failf("wrong-answer", "%s returned %d, model present=%v size=%d", desc, n, present, len(want))
						}
					case ipld.IsNotFound(err):
						if present {
							s.Failf("wrong-answer", "%s returned not-found but the model holds %d bytes", desc, len(want))
						}
					default:
						if s.FaultCount() == faultsBefore {
							s.Failf("unexpected-error", "%s failed without an injected fault: %v", desc, err)
						}
					}
				case "allkeys", "allkeyserr":
					ctx, cancel := context.WithCancel(bg)
					var ch <-chan cid.Cid
					var errFn func() error
					var err error
					if op.Kind == "allkeys" {
						ch, err = bs.AllKeysChan(ctx)
					} else {
						ch, errFn, err = bs.(AllKeysChanWithErrer).AllKeysChanWithErr(ctx)
					}
					if err != nil {
						cancel()
						if s.FaultCount() == faultsBefore {
							s.Failf("unexpected-error", "%s failed without an injected fault: %v", desc, err)
						}
						break
					}
					var got []string
					cancelled := false
					for k := range ch {
						got = append(got, k.String())
						if op.Cancel > 0 && len(got) == op.Cancel {
							cancel()
							cancelled = true
							s.Fault("enumeration-ctx-cancel")
						}
						s.Yield("consumer")
					}
					var ferr error
					if errFn != nil {
						ferr = errFn()
					}
					cancel()
					var want []string
					for h := range model {
						want = append(want, cid.NewCidV1(cid.Raw, mh.Multihash(h)).String())
					}
					sort.Strings(want)
					seen := map[string]bool{}
					for _, g := range got {
						if seen[g] {
							s.Failf("wrong-answer", "%s delivered %s twice", desc, g)
						}
						seen[g] = true
						if sort.SearchStrings(want, g) >= len(want) || want[sort.SearchStrings(want, g)] != g {
							s.Failf("wrong-answer", "%s delivered %s which is not a raw CIDv1 of a stored multihash (model: %v)", desc, g, want)
						}
					}
					complete := s.FaultCount() == faultsBefore && !cancelled
					if op.Kind == "allkeyserr" && ferr == nil {
						complete = true // the store claims the enumeration was complete
					}
					if complete && len(got) != len(want) {
						sort.Strings(got)
						s.Failf("wrong-answer", "%s (err=%v) delivered %d keys [%s], model has %d [%s]", desc, ferr, len(got), strings.Join(got, " "), len(want), strings.Join(want, " "))
					}
				}
				checkState(desc)
				if s.Failed() {
					return
				}
			}
		})
		done := s.Loop()
		if !done && s.DeadlockSeen() {
			s.Failf("harness-deadlock", "client blocked forever:\n%s", verifsim.StuckStacks())
		}
		s.Drain()
		time.Sleep(time.Second)
	})
}

func TestVerifC01(t *testing.T) {
	verifsim.Main(t, verifsim.Harness{
		Property: "C01",
		Name:     "blockstore-map",
		Gen:      c01Gen,
		New:      func() any { return &c01Case{} },
		Run:      c01Run,
		Sample: func(c any) any {
			cc := *c.(*c01Case)
			cc.Cfg.Tape = nil
			return cc
		},
	})
}
