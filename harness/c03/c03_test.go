package filestore

// C03 — verified reads never return bytes that do not hash to the requested CID.
// Storage-fault enumeration: (A) every single-byte flip (three masks), every
// truncation and 1-3 byte extensions of a stored block under a
// ValidatingBlockstore, for four hash functions; (B) scripted mutations of the
// file behind filestore references (change inside / outside the region, truncate
// before / inside / after it, remove, replace by a directory, restore), read
// through FileManager and Filestore.

import (
	"bytes"
	"context"
	"errors"
	"fmt"
	"os"
	"path/filepath"
	"runtime"
	"testing"
	"time"

	"github.com/ipfs/boxo/blockstore"
	"github.com/ipfs/boxo/datastore/dshelp"
	posinfo "github.com/ipfs/boxo/filestore/posinfo"
	"github.com/ipfs/boxo/internal/verifsim"
	"github.com/ipfs/boxo/internal/verifsim/simds"
	dag "github.com/ipfs/boxo/ipld/merkledag"
	blocks "github.com/ipfs/go-block-format"
	cid "github.com/ipfs/go-cid"
	mh "github.com/multiformats/go-multihash"
	"pgregory.net/rapid"
)

type c03Case struct {
	Cfg      verifsim.Config `json:"cfg"`
	Hash     int             `json:"hash"` // 0 sha2-256, 1 blake2b-256, 2 sha1, 3 identity
	Size     int             `json:"size"`
	DataSeed int             `json:"data_seed"`
	NoPrefix bool            `json:"no_prefix"`
	// filestore part
	FileSize int      `json:"file_size"`
	Regions  [][2]int `json:"regions"` // offset, length
	// KeepMtime: mutations leave the file's modification time unchanged (silent
	// corruption, in-place writes with restored times, coarse-mtime file systems)
	KeepMtime bool `json:"keep_mtime"`
}

func c03Gen(t *rapid.T, tier string) any {
	c := &c03Case{}
	c.Hash = rapid.IntRange(0, 3).Draw(t, "hash")
	maxSize := 64
	if tier == "thorough" && rapid.IntRange(0, 3).Draw(t, "large") == 0 {
		maxSize = 4096
	}
	c.Size = rapid.IntRange(0, maxSize).Draw(t, "size")
	if c.Hash == 3 && c.Size > 100 {
		c.Size = 100
	}
	c.DataSeed = rapid.IntRange(0, 1<<20).Draw(t, "seed")
	c.NoPrefix = rapid.Bool().Draw(t, "noprefix")
	c.FileSize = rapid.IntRange(1, 200).Draw(t, "filesize")
	nr := rapid.IntRange(1, 3).Draw(t, "nregions")
	for i := 0; i < nr; i++ {
		off := rapid.IntRange(0, c.FileSize-1).Draw(t, "off")
		ln := rapid.IntRange(1, c.FileSize-off).Draw(t, "len")
		c.Regions = append(c.Regions, [2]int{off, ln})
	}
	c.KeepMtime = rapid.Bool().Draw(t, "keepmtime")
	c.Cfg = verifsim.GenConfig(t, 0, 1000, time.Minute, nil)
	return c
}

func c03Data(seed, n int) []byte {
	b := make([]byte, n)
	x := uint32(seed*2654435761 + 12345)
	for i := range b {
		x = x*1664525 + 1013904223
		b[i] = byte(x >> 24)
	}
	return b
}

var c03Codes = []uint64{mh.SHA2_256, mh.BLAKE2B_MIN + 31, mh.SHA1, mh.IDENTITY}

var c03Base string
var c03Counter int

func c03Dir() string {
	if c03Base == "" {
		d, err := os.MkdirTemp("", "verif-c03-")
		if err != nil {
			panic(err)
		}
		c03Base = d
	}
	c03Counter++
	d := filepath.Join(c03Base, fmt.Sprintf("r%d", c03Counter))
	if err := os.MkdirAll(d, 0o755); err != nil {
		panic(err)
	}
	return d
}

func c03Hashes(c cid.Cid, data []byte) bool {
	got, err := c.Prefix().Sum(data)
	return err == nil && got.Equals(c)
}

func c03Run(t *testing.T, ci any, trace bool) *verifsim.Result {
	c := ci.(*c03Case)
	dir := c03Dir()
	defer os.RemoveAll(dir)
	// sync.Pool is live in this check and emptied before every run: a read buffer
	// that is recycled while a returned block still points into it is a way of
	// returning bytes that do not match the CID (later, not at the time of the call).
	runtime.VerifPools(true)
	defer runtime.VerifPools(false)
	return verifsim.Run(t, c.Cfg, trace, func(s *verifsim.Sim) {
		ctx := context.Background()
		// ---------- part A: validating blockstore over a corrupted datastore ----------
		d := simds.New(s, "ds", nil)
		d.Quiet = true
		var opts []blockstore.Option
		if c.NoPrefix {
			opts = append(opts, blockstore.NoPrefix())
		}
		vbs := &blockstore.ValidatingBlockstore{Blockstore: blockstore.NewBlockstore(d, opts...)}
		data := c03Data(c.DataSeed, c.Size)
		h, err := mh.Sum(data, c03Codes[c.Hash], -1)
		if err != nil {
			panic(err)
		}
		k := cid.NewCidV1(cid.Raw, h)
		blk, _ := blocks.NewBlockWithCid(data, k)
		if err := vbs.Put(ctx, blk); err != nil {
			panic(err)
		}
		key := dshelp.MultihashToDsKey(h).String()
		if !c.NoPrefix {
			key = "/blocks" + key
		}
		if _, ok := d.Data[key]; !ok {
			s.Failf("harness-key", "the block is not stored under the expected datastore key %s (keys: %v)", key, d.Keys())
			return
		}
		if b, err := vbs.Get(ctx, k); err != nil || !bytes.Equal(b.RawData(), data) {
			s.Failf("clean-read-failed", "reading the uncorrupted block failed: %v", err)
			return
		}
		nfaults := 0
		try := func(kind string, corrupted []byte) bool {
			nfaults++
			d.Data[key] = corrupted
			b, err := vbs.Get(ctx, k)
			if err == nil && !c03Hashes(k, b.RawData()) {
				s.Failf("corrupt-block-returned", "validating blockstore: stored bytes %s (%d -> %d bytes, hash code 0x%x): Get returned %d bytes that do not hash to the CID", kind, len(data), len(corrupted), c03Codes[c.Hash], len(b.RawData()))
				return false
			}
			if err == nil && !bytes.Equal(corrupted, data) && !bytes.Equal(b.RawData(), data) {
				s.Failf("corrupt-block-returned", "validating blockstore: stored bytes %s: Get succeeded with bytes different from the original", kind)
				return false
			}
			return true
		}
		for i := 0; i < len(data); i++ {
			for _, mask := range []byte{0x01, 0x80, 0xff} {
				cp := append([]byte(nil), data...)
				cp[i] ^= mask
				if !try(fmt.Sprintf("flipped at %d with mask %#x", i, mask), cp) {
					return
				}
			}
		}
		for n := 0; n < len(data); n++ {
			if !try(fmt.Sprintf("truncated to %d", n), append([]byte(nil), data[:n]...)) {
				return
			}
		}
		for e := 1; e <= 3; e++ {
			if !try(fmt.Sprintf("extended by %d", e), append(append([]byte(nil), data...), bytes.Repeat([]byte{0}, e)...)) {
				return
			}
			if !try(fmt.Sprintf("extended by %d (0xff)", e), append(append([]byte(nil), data...), bytes.Repeat([]byte{0xff}, e)...)) {
				return
			}
		}
		s.FaultN("stored-block-corruption", nfaults)

		// ---------- part B: filestore references over a mutated file ----------
		root := filepath.Join(dir, "root")
		os.MkdirAll(root, 0o755)
		fpath := filepath.Join(root, "data.bin")
		content := c03Data(c.DataSeed+7, c.FileSize)
		write := func(b []byte) {
			if err := os.WriteFile(fpath, b, 0o644); err != nil {
				panic(err)
			}
			if c.KeepMtime {
				if err := os.Chtimes(fpath, time.Unix(1_500_000_000, 0), time.Unix(1_500_000_000, 0)); err != nil {
					panic(err)
				}
			}
		}
		write(content)
		fd := simds.New(s, "fds", nil)
		fd.Quiet = true
		fm := NewFileManager(fd, root)
		fm.AllowFiles = true
		mainBS := blockstore.NewBlockstore(simds.New(nil, "main", nil))
		fstore := NewFilestore(mainBS, fm, nil)
		type ref struct {
			off, ln int
			c       cid.Cid
		}
		var refs []ref
		for _, r := range c.Regions {
			region := content[r[0] : r[0]+r[1]]
			nd := dag.NewRawNode(region)
			dup := false
			for _, x := range refs {
				if x.c.Equals(nd.Cid()) {
					dup = true // same bytes elsewhere in the file: one reference per CID
				}
			}
			if dup {
				continue
			}
			fn := &posinfo.FilestoreNode{Node: nd, PosInfo: &posinfo.PosInfo{Offset: uint64(r[0]), FullPath: fpath}}
			if err := fstore.Put(ctx, fn); err != nil {
				s.Failf("harness-put", "storing a filestore reference failed: %v", err)
				return
			}
			refs = append(refs, ref{r[0], r[1], nd.Cid()})
		}
		nmut := 0
		// blocks handed out earlier must keep their bytes while later reads happen
		type heldBlock struct {
			b    blocks.Block
			want []byte
			desc string
		}
		var held []heldBlock
		recheck := func(now string) bool {
			for _, hb := range held {
				if !bytes.Equal(hb.b.RawData(), hb.want) {
					s.Failf("returned-block-changed-later", "a block returned by %s held the referenced bytes when it was returned and no longer does after %s", hb.desc, now)
					return false
				}
			}
			if len(held) > 24 {
				held = held[len(held)-24:]
			}
			return true
		}
		// expect: "ok" (must succeed with the original region), "corrupt" (must fail), "any" (either, never wrong bytes)
		probe := func(what string, expect func(r ref) string) bool {
			nmut++
			for _, r := range refs {
				want := content[r.off : r.off+r.ln]
				for _, via := range []string{"FileManager", "Filestore"} {
					var b blocks.Block
					var err error
					if via == "FileManager" {
						b, err = fm.Get(ctx, r.c)
					} else {
						b, err = fstore.Get(ctx, r.c)
					}
					exp := expect(r)
					if err == nil && !bytes.Equal(b.RawData(), want) {
						s.Failf("corrupt-reference-returned", "%s.Get after %s: region [%d,+%d) returned bytes that differ from the referenced data", via, what, r.off, r.ln)
						return false
					}
					if err == nil && exp == "corrupt" {
						s.Failf("corrupt-reference-returned", "%s.Get after %s: region [%d,+%d) was read successfully although the file no longer holds the referenced data", via, what, r.off, r.ln)
						return false
					}
					if err == nil {
						held = append(held, heldBlock{b: b, want: append([]byte(nil), want...), desc: fmt.Sprintf("%s.Get (region [%d,+%d), after %s)", via, r.off, r.ln, what)})
					}
					if err != nil && exp == "ok" {
						s.Failf("valid-reference-refused", "%s.Get after %s: region [%d,+%d) is untouched but the read failed: %v", via, what, r.off, r.ln, err)
						return false
					}
					if err != nil && exp == "corrupt" {
						var cre *CorruptReferenceError
						if !errors.As(err, &cre) {
							s.Failf("wrong-error", "%s.Get after %s: region [%d,+%d) failed with %v, which is not a CorruptReferenceError", via, what, r.off, r.ln, err)
							return false
						}
					}
				}
			}
			return recheck(what)
		}
		if !probe("nothing", func(ref) string { return "ok" }) {
			return
		}
		for i := 0; i < c.FileSize; i++ {
			cp := append([]byte(nil), content...)
			cp[i] ^= 0x5a
			write(cp)
			i := i
			if !probe(fmt.Sprintf("changing file byte %d", i), func(r ref) string {
				if i >= r.off && i < r.off+r.ln {
					return "corrupt"
				}
				return "ok"
			}) {
				return
			}
		}
		for n := 0; n < c.FileSize; n++ {
			write(content[:n])
			n := n
			if !probe(fmt.Sprintf("truncating the file to %d bytes", n), func(r ref) string {
				if n < r.off+r.ln {
					return "corrupt"
				}
				return "ok"
			}) {
				return
			}
		}
		write(append(append([]byte(nil), content...), 1, 2, 3))
		if !probe("appending to the file", func(ref) string { return "ok" }) {
			return
		}
		os.Remove(fpath)
		if !probe("removing the file", func(ref) string { return "corrupt" }) {
			return
		}
		os.Mkdir(fpath, 0o755)
		if !probe("replacing the file by a directory", func(ref) string { return "corrupt" }) {
			return
		}
		os.Remove(fpath)
		write(content)
		if !probe("restoring the file", func(ref) string { return "ok" }) {
			return
		}
		if c.KeepMtime {
			s.FaultN("file-mutation-mtime-preserved", nmut)
		} else {
			s.FaultN("file-mutation", nmut)
		}
	})
}

func TestVerifC03(t *testing.T) {
	defer func() {
		if c03Base != "" {
			os.RemoveAll(c03Base)
		}
	}()
	verifsim.Main(t, verifsim.Harness{
		Property: "C03",
		Name:     "verified-reads",
		Gen:      c03Gen,
		New:      func() any { return &c03Case{} },
		Run:      c03Run,
		Sample: func(c any) any {
			cc := *c.(*c03Case)
			cc.Cfg.Tape = nil
			return cc
		},
	})
}
