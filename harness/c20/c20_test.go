package mfs

// C20 — MFS is deadlock-free and loses no acknowledged write under concurrency.
// Real: mfs Root / Directory / File / fileDescriptor, DagModifier, unixfs
// directories, with their real sync.RWMutex semantics. Simulated: DAG service
// (every Get/Add is a scheduling point), clock, scheduler (plus inserted yields
// in package mfs and unixfs/mod).

import (
	"bytes"
	"context"
	"fmt"
	"io"
	"os"
	"sort"
	"strings"
	"testing"
	"time"

	"github.com/anishathalye/porcupine"
	"github.com/ipfs/boxo/internal/verifsim"
	"github.com/ipfs/boxo/internal/verifsim/simdag"
	dag "github.com/ipfs/boxo/ipld/merkledag"
	ft "github.com/ipfs/boxo/ipld/unixfs"
	uio "github.com/ipfs/boxo/ipld/unixfs/io"
	cid "github.com/ipfs/go-cid"
	ipld "github.com/ipfs/go-ipld-format"
	"pgregory.net/rapid"
)

type c20Op struct {
	Kind  string `json:"k"` // write read mode modtime setmode setmodtime size list listfull flushroot flushdir fileflush mv
	File  int    `json:"f,omitempty"`
	Sync  bool   `json:"sync,omitempty"`
	Flush bool   `json:"flush,omitempty"` // write: call Flush before Close
	Size  int    `json:"size,omitempty"`
}

type c20Case struct {
	Cfg     verifsim.Config `json:"cfg"`
	NFiles  int             `json:"nfiles"`
	Tasks   [][]c20Op       `json:"tasks"`
	Publish bool            `json:"publish"`
}

var c20Paths = []string{"/f0", "/d/f1"}

func c20Gen(t *rapid.T, tier string) any {
	c := &c20Case{}
	c.NFiles = rapid.IntRange(1, 2).Draw(t, "nfiles")
	maxOps := 6
	if tier == "thorough" {
		maxOps = 12
	}
	kinds := []string{"write", "write", "write", "read", "read", "mode", "modtime", "setmode", "setmodtime", "size", "list", "listfull", "flushroot", "flushdir", "fileflush", "mv"}
	gen := rapid.Custom(func(t *rapid.T) c20Op {
		op := c20Op{Kind: rapid.SampledFrom(kinds).Draw(t, "k")}
		op.File = rapid.IntRange(0, c.NFiles-1).Draw(t, "f")
		if op.Kind == "write" {
			op.Sync = rapid.Bool().Draw(t, "sync")
			op.Flush = rapid.Bool().Draw(t, "flush")
			op.Size = rapid.SampledFrom([]int{0, 1, 20, 300}).Draw(t, "size")
		}
		return op
	})
	nt := rapid.IntRange(2, 4).Draw(t, "ntasks")
	for i := 0; i < nt; i++ {
		c.Tasks = append(c.Tasks, rapid.SliceOfN(gen, 1, maxOps).Draw(t, "ops"))
	}
	c.Publish = rapid.Bool().Draw(t, "publish")
	maxTape := 600
	if tier == "thorough" {
		maxTape = 2000
	}
	c.Cfg = verifsim.GenConfig(t, maxTape, 30000, 2*time.Minute, nil)
	return c
}

type c20Used struct {
	fi   *File
	what string
	hist int // index of the operation in the history
}

type c20In struct {
	kind string
	file int
	val  string
	// loose: the operation went through an object that a directory flush dropped
	// from its parent's cache (known finding): in the relaxed model its write may
	// or may not reach the tree and its read is not judged
	loose bool
}

// c20Relaxed is the model used to decide whether a failing history is explained by
// the known finding alone: the state is the set of contents the file may have.
var c20Relaxed = porcupine.Model{
	Partition: func(history []porcupine.Operation) [][]porcupine.Operation { return c20Model.Partition(history) },
	Init:      func() interface{} { return "\x00" },
	Step: func(state, input, output interface{}) (bool, interface{}) {
		in := input.(c20In)
		set := strings.Split(state.(string), "\x00")[1:] // leading separator: the empty content is a member too
		has := func(v string) bool {
			for _, x := range set {
				if x == v {
					return true
				}
			}
			return false
		}
		switch {
		case in.kind == "touch" && !in.loose:
			return true, state
		case in.kind == "touch":
			// a metadata update through a dropped object writes that object's node back
			// into the tree: the content may become any value the file ever had
			for _, v := range strings.Split(in.val, "\x00") {
				if !has(v) {
					set = append(set, v)
				}
			}
			sort.Strings(set)
			return true, "\x00" + strings.Join(set, "\x00")
		case in.kind == "write" && !in.loose:
			return true, "\x00" + in.val
		case in.kind == "write":
			if !has(in.val) {
				set = append(set, in.val)
				sort.Strings(set)
			}
			return true, "\x00" + strings.Join(set, "\x00")
		case in.loose:
			return true, state
		default:
			if !has(output.(string)) {
				return false, state
			}
			return true, "\x00" + output.(string)
		}
	},
	DescribeOperation: func(input, output interface{}) string { return fmt.Sprintf("%+v -> %q", input, output) },
}

var c20Model = porcupine.Model{
	Partition: func(history []porcupine.Operation) [][]porcupine.Operation {
		m := map[int][]porcupine.Operation{}
		var keys []int
		for _, op := range history {
			k := op.Input.(c20In).file
			if _, ok := m[k]; !ok {
				keys = append(keys, k)
			}
			m[k] = append(m[k], op)
		}
		var out [][]porcupine.Operation
		for _, k := range keys {
			out = append(out, m[k])
		}
		return out
	},
	Init: func() interface{} { return "" },
	Step: func(state, input, output interface{}) (bool, interface{}) {
		in := input.(c20In)
		switch in.kind {
		case "write":
			return true, in.val
		case "touch": // SetMode / SetModTime: the content stays
			return true, state
		default:
			return output.(string) == state.(string), state
		}
	},
	DescribeOperation: func(input, output interface{}) string { return fmt.Sprintf("%+v -> %q", input, output) },
}

func c20Payload(task, n, size int) string {
	head := fmt.Sprintf("<t%d-w%d>", task, n)
	if size > len(head) {
		return head + string(bytes.Repeat([]byte{'.'}, size-len(head)))
	}
	return head
}

func c20Run(t *testing.T, ci any, trace bool) *verifsim.Result {
	c := ci.(*c20Case)
	var hist []porcupine.Operation
	var orphanedAll []string
	looseOps := map[int]bool{}
	res := verifsim.Run(t, c.Cfg, trace, func(s *verifsim.Sim) {
		ds := simdag.New(s, nil)
		ds.Quiet = true
		ctx, cancel := context.WithCancel(context.Background())
		defer cancel()
		var pf PubFunc
		if c.Publish {
			pf = func(ctx context.Context, k cid.Cid) error { s.Yield("publish"); return nil }
		}
		root, err := NewEmptyRoot(ctx, ds, pf, nil)
		if err != nil {
			panic(err)
		}
		if err := Mkdir(root, "/d", MkdirOpts{}); err != nil {
			panic(err)
		}
		files := make([]*File, c.NFiles)
		for i := 0; i < c.NFiles; i++ {
			init := fmt.Sprintf("<init-%d>", i)
			nd := dag.NodeWithData(ft.FilePBData([]byte(init), uint64(len(init))))
			if err := PutNode(root, c20Paths[i], nd); err != nil {
				panic(err)
			}
			fsn, err := Lookup(root, c20Paths[i])
			if err != nil {
				panic(err)
			}
			files[i] = fsn.(*File)
			hist = append(hist, porcupine.Operation{ClientId: 0, Input: c20In{kind: "write", file: i, val: init}, Output: "", Call: -2, Return: -1})
		}
		// scratch file that only Mv touches
		if err := PutNode(root, "/m", dag.NodeWithData(ft.FilePBData([]byte("m"), 1))); err != nil {
			panic(err)
		}
		mvState := 0
		var used []c20Used
		var flushes [][2]int64 // [invoke, return] of every directory flush issued by a task
		ds.Quiet = false

		touched := func(fi *File, what string, file int, inv int64) {
			used = append(used, c20Used{fi, what, len(hist)})
			if c20Detached(root, fi) {
				looseOps[len(hist)] = true
			}
			hist = append(hist, porcupine.Operation{ClientId: 99, Input: c20In{kind: "touch", file: file}, Output: "", Call: inv, Return: s.Seq()})
		}
		readAll := func(fi *File) (string, error) {
			fd, err := fi.Open(ctx, Flags{Read: true})
			if err != nil {
				return "", err
			}
			b, rerr := io.ReadAll(fd)
			cerr := fd.Close()
			if rerr != nil {
				return "", rerr
			}
			return string(b), cerr
		}

		for ti, ops := range c.Tasks {
			ti, ops := ti, ops
			s.Go(fmt.Sprintf("task%d", ti), func() {
				for n, op := range ops {
					s.Logf("t%d %s f%d", ti, op.Kind, op.File)
					// like `ipfs files ...`, every operation resolves the path again
					inv := s.Seq()
					fsn, lerr := Lookup(root, c20Paths[op.File])
					if lerr != nil {
						s.Failf("op-failed", "Lookup %s: %v", c20Paths[op.File], lerr)
						return
					}
					fi := fsn.(*File)
					switch op.Kind {
					case "write":
						val := c20Payload(ti, n, op.Size)
						fd, err := fi.Open(ctx, Flags{Write: true, Sync: op.Sync})
						if err != nil {
							s.Failf("op-failed", "Open(write) f%d: %v", op.File, err)
							return
						}
						if err := fd.Truncate(0); err != nil {
							s.Failf("op-failed", "Truncate f%d: %v", op.File, err)
						}
						if _, err := fd.Write([]byte(val)); err != nil {
							s.Failf("op-failed", "Write f%d: %v", op.File, err)
						}
						if op.Flush {
							if err := fd.Flush(); err != nil {
								s.Failf("op-failed", "Flush f%d: %v", op.File, err)
							}
						}
						if err := fd.Close(); err != nil {
							s.Failf("op-failed", "Close f%d: %v", op.File, err)
						}
						used = append(used, c20Used{fi, "write " + val, len(hist)})
						if c20Detached(root, fi) {
							// the object had been dropped by a directory flush before the close
							// returned: what the known finding is about
							looseOps[len(hist)] = true
						}
						hist = append(hist, porcupine.Operation{ClientId: ti + 1, Input: c20In{kind: "write", file: op.File, val: val}, Output: "", Call: inv, Return: s.Seq()})
					case "read":
						got, err := readAll(fi)
						if err != nil {
							s.Failf("op-failed", "read f%d: %v", op.File, err)
							return
						}
						used = append(used, c20Used{fi, fmt.Sprintf("read -> %q", got), len(hist)})
						if c20Detached(root, fi) {
							looseOps[len(hist)] = true
						}
						hist = append(hist, porcupine.Operation{ClientId: ti + 1, Input: c20In{kind: "read", file: op.File, val: ""}, Output: got, Call: inv, Return: s.Seq()})
					case "mode":
						if _, err := fi.Mode(); err != nil {
							s.Failf("op-failed", "Mode f%d: %v", op.File, err)
						}
					case "modtime":
						if _, err := fi.ModTime(); err != nil {
							s.Failf("op-failed", "ModTime f%d: %v", op.File, err)
						}
					case "setmode":
						if err := fi.SetMode(os.FileMode(0o600 + n)); err != nil {
							s.Failf("op-failed", "SetMode f%d: %v", op.File, err)
						}
						touched(fi, "setmode", op.File, inv)
					case "setmodtime":
						if err := fi.SetModTime(time.Unix(int64(1000+n), 0)); err != nil {
							s.Failf("op-failed", "SetModTime f%d: %v", op.File, err)
						}
						touched(fi, "setmodtime", op.File, inv)
					case "size":
						if _, err := fi.Size(); err != nil {
							s.Failf("op-failed", "Size f%d: %v", op.File, err)
						}
					case "list":
						if _, err := root.GetDirectory().ListNames(ctx); err != nil {
							s.Failf("op-failed", "ListNames: %v", err)
						}
					case "listfull":
						// unlike ListNames this asks every cached child for its node
						if _, err := root.GetDirectory().List(ctx); err != nil {
							s.Failf("op-failed", "List: %v", err)
						}
					case "flushroot":
						if _, err := FlushPath(ctx, root, "/"); err != nil {
							s.Failf("op-failed", "FlushPath(/): %v", err)
						}
						flushes = append(flushes, [2]int64{inv, s.Seq()})
					case "flushdir":
						// flush of the sub-directory only: child first, then its entry in the parent
						if _, err := FlushPath(ctx, root, "/d"); err != nil {
							s.Failf("op-failed", "FlushPath(/d): %v", err)
						}
						flushes = append(flushes, [2]int64{inv, s.Seq()})
					case "fileflush":
						if err := fi.Flush(); err != nil {
							s.Failf("op-failed", "File.Flush f%d: %v", op.File, err)
						}
						touched(fi, "fileflush", op.File, inv)
					case "mv":
						// only the scratch file moves; concurrent movers may lose the race, which is fine
						src, dst := "/m", "/d/m"
						if mvState%2 == 1 {
							src, dst = dst, src
						}
						if err := Mv(root, src, dst); err == nil {
							mvState++
						}
					}
				}
			})
		}
		done := s.Loop()
		if !done {
			if s.DeadlockSeen() {
				s.Failf("deadlock", "MFS operations are blocked forever:\n%s", verifsim.StuckStacks())
			}
			s.Drain()
			return
		}
		s.Drain()
		// Which operations went through a File (or a directory on its path) that is no
		// longer the object its parent's cache knows, i.e. that a directory Flush
		// (cacheSync(clean)) dropped while or after the operation used it? Such an
		// object neither propagates to, nor is refreshed from, the tree.
		for _, u := range used {
			if c20Detached(root, u.fi) {
				orphanedAll = append(orphanedAll, u.what)
				// dropped after the operation returned: covered by the known finding only if
				// a directory flush was in progress while the operation ran (its write then
				// landed between the flush's snapshot of the child and the cache drop)
				op := hist[u.hist]
				for _, f := range flushes {
					if f[0] <= op.Return && f[1] >= op.Call {
						looseOps[u.hist] = true
					}
				}
				s.Probe("op-on-object-dropped-by-directory-flush")
			}
		}
		if s.Failed() {
			return
		}
		// final reads: through MFS and through the flushed root with plain UnixFS readers
		rootNode, err := FlushPath(ctx, root, "/")
		if err != nil {
			s.Failf("op-failed", "final FlushPath: %v", err)
			return
		}
		for i := range files {
			inv := s.Seq()
			fsn, err := Lookup(root, c20Paths[i])
			if err != nil {
				s.Failf("op-failed", "final Lookup %s: %v", c20Paths[i], err)
				return
			}
			got, err := readAll(fsn.(*File))
			if err != nil {
				s.Failf("op-failed", "final read f%d: %v", i, err)
				return
			}
			hist = append(hist, porcupine.Operation{ClientId: 0, Input: c20In{kind: "read", file: i, val: ""}, Output: got, Call: inv, Return: s.Seq()})
			viaRoot, err := c20ReadFromRoot(ctx, ds, rootNode, c20Paths[i])
			if err != nil {
				s.Failf("flushed-root-unreadable", "reading %s from the flushed root failed: %v", c20Paths[i], err)
				return
			}
			if viaRoot != got {
				cls := "flushed-root-stale"
				for _, u := range used {
					// only when an operation on this very file went through a dropped object
					if looseOps[u.hist] && hist[u.hist].Input.(c20In).file == i {
						cls = "stale-object-after-directory-flush"
					}
				}
				s.Failf(cls, "%s: MFS reads %q but the flushed root holds %q", c20Paths[i], got, viaRoot)
				return
			}
		}
		if root.repub != nil {
			cerr := make(chan error, 1)
			go func() { cerr <- root.Close() }()
			select {
			case <-cerr:
			case <-time.After(time.Minute):
			}
		}
	})
	if res.Violation == nil && res.Panic == "" && !res.Capped && len(hist) > 0 {
		r, _ := porcupine.CheckOperationsVerbose(c20Model, hist, 20*time.Second)
		switch r {
		case porcupine.Illegal:
			var b bytes.Buffer
			for _, op := range hist {
				fmt.Fprintf(&b, "  client%d [%d,%d] %+v -> %q\n", op.ClientId, op.Call, op.Return, op.Input, op.Output)
			}
			cls, extra := "lost-or-stale-write", ""
			// Is the failure explained by the known finding alone? Judge the history again
			// with the operations that went through dropped objects relaxed (their writes
			// may or may not have reached the tree, their reads are not judged).
			explained := false
			if len(looseOps) > 0 {
				relaxed := append([]porcupine.Operation(nil), hist...)
				for i := range relaxed {
					if looseOps[i] {
						in := relaxed[i].Input.(c20In)
						in.loose = true
						if in.kind == "touch" {
							var vals []string
							for _, o := range hist {
								if oi := o.Input.(c20In); oi.kind == "write" && oi.file == in.file {
									vals = append(vals, oi.val)
								}
							}
							in.val = strings.Join(vals, "\x00")
						}
						relaxed[i].Input = in
					}
				}
				if rr := porcupine.CheckOperationsTimeout(c20Relaxed, relaxed, 20*time.Second); rr != porcupine.Illegal {
					explained = true
				}
			}
			if explained {
				cls = "stale-object-after-directory-flush"
				extra = fmt.Sprintf("NOTE: operation(s) %v used a File/Directory object that a concurrent Directory.Flush (cacheSync(clean)) dropped from its parent's cache while or after the operation used it; such an object no longer propagates to, nor is refreshed from, the tree\n", orphanedAll)
			}
			res.Violation = &verifsim.Violation{Class: cls, Msg: extra + "per-file history (write = open..close with a unique payload, read = open..close) is not linearizable: an acknowledged write is not visible to a later read\n" + b.String()}
		case porcupine.Unknown:
			res.Probes["porcupine-unknown"]++
		}
	}
	return res
}

// c20Detached reports whether fi, or a directory on its path, is no longer the
// object cached by its parent (i.e. a directory Flush uncached it).
func c20Detached(root *Root, fi *File) bool {
	var cur FSNode = fi
	name := fi.name
	par := fi.parent
	for {
		switch p := par.(type) {
		case *Directory:
			if p.entriesCache[name] != cur {
				return true
			}
			cur, name, par = p, p.name, p.parent
		case *Root:
			return p.dir != cur
		default:
			return false
		}
	}
}

func c20ReadFromRoot(ctx context.Context, ds ipld.DAGService, rootNode ipld.Node, p string) (string, error) {
	cur := rootNode
	parts := bytes.Split([]byte(p[1:]), []byte("/"))
	for _, part := range parts {
		d, err := uio.NewDirectoryFromNode(ds, cur)
		if err != nil {
			return "", err
		}
		nd, err := d.Find(ctx, string(part))
		if err != nil {
			return "", err
		}
		cur = nd
	}
	r, err := uio.NewDagReader(ctx, cur, ds)
	if err != nil {
		return "", err
	}
	b, err := io.ReadAll(r)
	return string(b), err
}

func TestVerifC20(t *testing.T) {
	verifsim.Main(t, verifsim.Harness{
		Property: "C20",
		Name:     "mfs-concurrency",
		Gen:      c20Gen,
		New:      func() any { return &c20Case{} },
		Run:      c20Run,
		Sample: func(c any) any {
			cc := *c.(*c20Case)
			cc.Cfg.Tape = nil
			return cc
		},
	})
}
