package blockservice

// C05 — the block service returns exactly the requested blocks and caches
// fetched ones; C04 — only allowlisted hashes and digest sizes enter or leave the
// block service. One harness, two entry points (the C04 run adds the exhaustive
// validator sweep and uses invalid CIDs more often).
//
// Real: blockservice (plain and session paths, WriteThrough on/off), default
// blockstore. Simulated: datastore (simds), exchange (simex: any subset / order /
// duplicates / early close / error, and the malicious profile: unrequested blocks,
// blocks with rejected CIDs, blocks whose bytes do not hash to their CID).

import (
	"bytes"
	"context"
	"fmt"
	"runtime"
	"testing"
	"time"

	"github.com/ipfs/boxo/blockstore"
	"github.com/ipfs/boxo/internal/verifsim"
	"github.com/ipfs/boxo/internal/verifsim/simds"
	"github.com/ipfs/boxo/internal/verifsim/simex"
	"github.com/ipfs/boxo/verifcid"
	blocks "github.com/ipfs/go-block-format"
	cid "github.com/ipfs/go-cid"
	mh "github.com/multiformats/go-multihash"
	"pgregory.net/rapid"
)

type c05Op struct {
	Kind    string `json:"k"`                // getblock getblocks addblock addblocks
	Keys    []int  `json:"keys"`             // indices: 0..7 valid pool, 8..10 rejected CIDs
	Session int    `json:"session"`          // 0 none, 1 NewSession, 2 ContextWithSession
	Cancel  int    `json:"cancel,omitempty"` // getblocks: cancel after this many received blocks (0 = never)
}

type c05Case struct {
	Cfg          verifsim.Config `json:"cfg"`
	Local        []int           `json:"local"` // pool blocks present locally at the start
	WriteThrough bool            `json:"write_through"`
	CustomAllow  bool            `json:"custom_allowlist"` // allowlist that additionally rejects blake2b (pool block 7)
	Tasks        [][]c05Op       `json:"tasks"`
	Plans        []simex.Call    `json:"plans"`
}

const c05NPool = 8

func c05Pool() (pool, bad []blocks.Block) {
	for i := 0; i < c05NPool; i++ {
		data := bytes.Repeat([]byte{byte('a' + i)}, 3+i*5)
		code := uint64(mh.SHA2_256)
		if i == 7 {
			code = mh.BLAKE2B_MIN + 31
		}
		h, _ := mh.Sum(data, code, -1)
		b, _ := blocks.NewBlockWithCid(data, cid.NewCidV1(cid.Raw, h))
		pool = append(pool, b)
	}
	// rejected by the default allowlist: md5, truncated sha2-256 (10 bytes), oversized identity
	d0 := []byte("md5 block")
	h0, _ := mh.Sum(d0, mh.MD5, -1)
	b0, _ := blocks.NewBlockWithCid(d0, cid.NewCidV1(cid.Raw, h0))
	d1 := []byte("short digest block")
	h1, _ := mh.Sum(d1, mh.SHA2_256, 10)
	b1, _ := blocks.NewBlockWithCid(d1, cid.NewCidV1(cid.Raw, h1))
	d2 := bytes.Repeat([]byte{'i'}, 200)
	h2, _ := mh.Sum(d2, mh.IDENTITY, -1)
	b2, _ := blocks.NewBlockWithCid(d2, cid.NewCidV1(cid.Raw, h2))
	bad = []blocks.Block{b0, b1, b2}
	return
}

func c05GenFor(invalidBias bool) func(t *rapid.T, tier string) any {
	return func(t *rapid.T, tier string) any {
		c := &c05Case{}
		c.Local = rapid.SliceOfNDistinct(rapid.IntRange(0, c05NPool-1), 0, 5, func(i int) int { return i }).Draw(t, "local")
		c.WriteThrough = rapid.Bool().Draw(t, "wt")
		c.CustomAllow = rapid.IntRange(0, 3).Draw(t, "custom") == 0
		maxKey := c05NPool - 1
		keyGen := rapid.Custom(func(t *rapid.T) int {
			p := 6
			if invalidBias {
				p = 2
			}
			if rapid.IntRange(0, p).Draw(t, "invalid") == 0 {
				return c05NPool + rapid.IntRange(0, 2).Draw(t, "badkey")
			}
			return rapid.IntRange(0, maxKey).Draw(t, "key")
		})
		maxOps := 4
		if tier == "thorough" {
			maxOps = 8
		}
		opGen := rapid.Custom(func(t *rapid.T) c05Op {
			op := c05Op{Kind: rapid.SampledFrom([]string{"getblock", "getblocks", "getblocks", "getblocks", "addblock", "addblocks"}).Draw(t, "k")}
			op.Session = rapid.IntRange(0, 2).Draw(t, "session")
			switch op.Kind {
			case "getblock", "addblock":
				op.Keys = []int{keyGen.Draw(t, "k1")}
			default:
				op.Keys = rapid.SliceOfN(keyGen, 0, 8).Draw(t, "keys")
			}
			if op.Kind == "getblocks" && rapid.IntRange(0, 3).Draw(t, "cancelling") == 0 {
				op.Cancel = rapid.IntRange(1, 4).Draw(t, "cancel")
			}
			return op
		})
		nt := rapid.IntRange(1, 3).Draw(t, "ntasks")
		for i := 0; i < nt; i++ {
			c.Tasks = append(c.Tasks, rapid.SliceOfN(opGen, 1, maxOps).Draw(t, "ops"))
		}
		emit := rapid.Custom(func(t *rapid.T) simex.Emit {
			return simex.Emit{Kind: rapid.SampledFrom([]string{"ok", "ok", "ok", "dup", "unrequested", "badcid", "corrupt", "alias"}).Draw(t, "ek"), Idx: rapid.IntRange(0, 7).Draw(t, "ei")}
		})
		callGen := rapid.Custom(func(t *rapid.T) simex.Call {
			return simex.Call{Emits: rapid.SliceOfN(emit, 0, 6).Draw(t, "emits"), End: rapid.SampledFrom([]string{"rest", "rest", "close", "error"}).Draw(t, "end")}
		})
		profile := rapid.IntRange(0, 2).Draw(t, "profile") // 0 honest+complete, 1/2 planned
		if profile > 0 {
			c.Plans = rapid.SliceOfN(callGen, 1, 6).Draw(t, "plans")
		}
		c.Cfg = verifsim.GenConfig(t, 300, 10000, time.Minute, nil)
		if rapid.Bool().Draw(t, "postyield") {
			c.Cfg.Buggify = append(c.Cfg.Buggify, "ds-post-yield")
		}
		return c
	}
}

// c05Hashes reports whether the block's bytes hash to its CID.
func c05Hashes(b blocks.Block) bool {
	p := b.Cid().Prefix()
	h, err := mh.Sum(b.RawData(), p.MhType, p.MhLength)
	if err != nil {
		return false
	}
	return bytes.Equal(h, b.Cid().Hash())
}

func c05Run(t *testing.T, ci any, trace bool) *verifsim.Result {
	c := ci.(*c05Case)
	// sync.Pool is live in this check (elsewhere nothing is pooled inside a bubble):
	// a per-request object that is recycled across calls carries state from one
	// request into another. The pools are emptied before every run (two collections:
	// the second drops the victim cache), so a run never depends on earlier runs.
	runtime.VerifPools(true)
	defer runtime.VerifPools(false)
	return verifsim.Run(t, c.Cfg, trace, func(s *verifsim.Sim) {
		pool, bad := c05Pool()
		all := append(append([]blocks.Block{}, pool...), bad...)
		var allow verifcid.Allowlist = verifcid.DefaultAllowlist
		if c.CustomAllow {
			allow = verifcid.NewOverridingAllowlist(verifcid.DefaultAllowlist, map[uint64]bool{mh.BLAKE2B_MIN + 31: false})
		}
		// independent statement of the rule for the few CIDs used here
		rejected := func(k cid.Cid) bool {
			p := k.Prefix()
			switch {
			case p.MhType == mh.MD5:
				return true
			case p.MhType == mh.BLAKE2B_MIN+31 && c.CustomAllow:
				return true
			case p.MhType == mh.IDENTITY:
				return p.MhLength > 128
			default:
				return p.MhLength < 20 || p.MhLength > 128
			}
		}
		d := simds.New(s, "ds", nil)
		// the datastore is not a fault source in this check: like the in-memory and
		// LevelDB stores it ignores context cancellation
		d.IgnoreCtx = true
		bstore := blockstore.NewBlockstore(d)
		d.Quiet = true
		localAlways := map[string]bool{}
		for _, i := range c.Local {
			if err := bstore.Put(context.Background(), pool[i]); err != nil {
				panic(err)
			}
			localAlways[pool[i].Cid().KeyString()] = true
		}
		d.Quiet = false
		prepop := len(d.Log)
		ex := simex.New(s, pool, bad, c.Plans)
		bsrv := New(bstore, ex, WriteThrough(c.WriteThrough), WithAllowlist(allow))
		bg := context.Background()

		fromExchange := func(b blocks.Block) (string, bool) {
			for _, dl := range ex.Deliveries {
				if dl.Block == b {
					return dl.Kind, true
				}
			}
			return "", false
		}
		inStore := func(b blocks.Block) bool {
			for k := range d.Data {
				_ = k
			}
			has, _ := func() (bool, error) {
				d.Quiet = true
				defer func() { d.Quiet = false }()
				return bstore.Has(bg, b.Cid())
			}()
			return has
		}
		checkOut := func(desc string, b blocks.Block, requested []cid.Cid) bool {
			ok := false
			for _, r := range requested {
				if r.Equals(b.Cid()) {
					ok = true
				}
			}
			kind, fromEx := fromExchange(b)
			src := "the local store"
			if fromEx {
				src = "the exchange (" + kind + ")"
			} else {
				for _, dl := range ex.Deliveries {
					if dl.Kind == "corrupt" && dl.Block.Cid().Equals(b.Cid()) {
						src = "the local store, into which it had been written after it was received from the exchange (corrupt)"
					}
				}
			}
			if !ok {
				s.Failf("unrequested-block", "%s handed over a block with CID %s from %s, which was not requested", desc, b.Cid(), src)
				return false
			}
			if rejected(b.Cid()) {
				s.Failf("rejected-cid-returned", "%s handed over a block whose CID %s the validator rejects", desc, b.Cid())
				return false
			}
			if !c05Hashes(b) {
				s.Failf("block-bytes-mismatch", "%s handed over a block from %s whose bytes do not hash to its CID %s", desc, src, b.Cid())
				return false
			}
			if fromEx && !inStore(b) {
				s.Failf("not-cached", "%s handed over %s, fetched from the exchange, but it is not in the local blockstore at that moment", desc, b.Cid())
				return false
			}
			return true
		}

		for ti, ops := range c.Tasks {
			ti, ops := ti, ops
			s.Go(fmt.Sprintf("task%d", ti), func() {
				for n, op := range ops {
					desc := fmt.Sprintf("t%d op#%d %s%v session=%d", ti, n, op.Kind, op.Keys, op.Session)
					s.Logf("%s", desc)
					var keys []cid.Cid
					var blks []blocks.Block
					for _, k := range op.Keys {
						keys = append(keys, all[k].Cid())
						blks = append(blks, all[k])
					}
					ctx, cancel := context.WithCancel(bg)
					var getter BlockGetter = bsrv
					switch op.Session {
					case 1:
						getter = NewSession(ctx, bsrv)
					case 2:
						ctx = ContextWithSession(ctx, bsrv)
					}
					switch op.Kind {
					case "getblock":
						b, err := getter.GetBlock(ctx, keys[0])
						if err == nil {
							if !b.Cid().Equals(keys[0]) {
								_, fromEx := fromExchange(b)
								s.Failf("wrong-cid", "%s: GetBlock(%s) returned a block with CID %s (from the exchange: %v)", desc, keys[0], b.Cid(), fromEx)
							} else {
								checkOut(desc, b, keys)
							}
						} else if rejected(keys[0]) {
							s.Probe("rejected-get-refused")
						}
						if err == nil && rejected(keys[0]) {
							s.Failf("rejected-cid-returned", "%s: GetBlock accepted the rejected CID %s", desc, keys[0])
						}
					case "getblocks":
						ch := getter.GetBlocks(ctx, keys)
						got := 0
						for b := range ch {
							got++
							if !checkOut(desc, b, keys) {
								break
							}
							if op.Cancel > 0 && got == op.Cancel {
								cancel()
								s.Fault("request-cancel")
							}
							s.Yield("consumer")
						}
					case "addblock":
						err := bsrv.AddBlock(ctx, blks[0])
						if err == nil && rejected(keys[0]) {
							s.Failf("rejected-cid-stored", "%s: AddBlock accepted a block whose CID %s the validator rejects", desc, keys[0])
						}
						if err != nil && !rejected(keys[0]) {
							s.Failf("unexpected-error", "%s: AddBlock failed: %v", desc, err)
						}
					case "addblocks":
						err := bsrv.AddBlocks(ctx, blks)
						anyRej := false
						for _, k := range keys {
							if rejected(k) {
								anyRej = true
							}
						}
						if err == nil && anyRej {
							s.Failf("rejected-cid-stored", "%s: AddBlocks accepted a batch containing a rejected CID", desc)
						}
						if err != nil && !anyRej {
							s.Failf("unexpected-error", "%s: AddBlocks failed: %v", desc, err)
						}
					}
					cancel()
					if s.Failed() {
						return
					}
				}
			})
		}
		done := s.Loop()
		if !done && s.DeadlockSeen() {
			s.Failf("harness-deadlock", "tasks blocked forever:\n%s", verifsim.StuckStacks())
		}
		s.Drain()
		time.Sleep(time.Second)
		if s.Failed() {
			return
		}
		// exchange request log: never a rejected CID, never a block that was local all along
		for _, req := range ex.Requests {
			for _, k := range req {
				if rejected(k) {
					s.Failf("rejected-cid-fetched", "the exchange was asked for %s, which the validator rejects", k)
					return
				}
				if localAlways[k.KeyString()] {
					s.Failf("local-block-fetched", "the exchange was asked for %s although it was in the local blockstore during the whole run", k)
					return
				}
			}
		}
		// datastore write log: never a key of a rejected CID, never bytes that do not belong to the key
		for _, w := range d.Log[prepop:] {
			if w.Kind != "put" {
				continue
			}
			for _, b := range bad {
				if w.Key == "/blocks"+dshelpKey(b.Cid()) {
					s.Failf("rejected-cid-stored", "a block with the rejected CID %s was written to the blockstore", b.Cid())
					return
				}
			}
			if c.CustomAllow && w.Key == "/blocks"+dshelpKey(pool[7].Cid()) {
				s.Failf("rejected-cid-stored", "a block with the rejected (custom allowlist) CID %s was written to the blockstore", pool[7].Cid())
				return
			}
			for _, b := range pool {
				if w.Key == "/blocks"+dshelpKey(b.Cid()) && !bytes.Equal(w.Val, b.RawData()) {
					s.Failf("block-bytes-mismatch", "the blockstore entry of %s was written with bytes that do not hash to it, received from the exchange (corrupt)", b.Cid())
					return
				}
			}
		}
	})
}

func c05Sample(c any) any {
	cc := *c.(*c05Case)
	cc.Cfg.Tape = nil
	return cc
}

func TestVerifC05(t *testing.T) {
	verifsim.Main(t, verifsim.Harness{Property: "C05", Name: "blockservice-exchange", Gen: c05GenFor(false), New: func() any { return &c05Case{} }, Run: c05Run, Sample: c05Sample})
}
