package blockservice

import (
	"fmt"
	"sync"
	"testing"

	"github.com/ipfs/boxo/datastore/dshelp"
	"github.com/ipfs/boxo/internal/verifsim"
	"github.com/ipfs/boxo/verifcid"
	cid "github.com/ipfs/go-cid"
	mh "github.com/multiformats/go-multihash"
)

func dshelpKey(c cid.Cid) string { return dshelp.MultihashToDsKey(c.Hash()).String() }

// c04Sweep is the precondition of the C04 oracle, not a simulation: the
// validator is swept over every registered multihash code plus unknown codes and
// every digest length 0..256 for the default, a custom and an overriding
// allowlist, against the rule as the property states it.
func c04Sweep() (cases int, bad string) {
	codes := []uint64{0x7777, 0x123456, 0xb2ff}
	for code := range mh.Codes {
		codes = append(codes, code)
	}
	defaultAllowed := func(code uint64) bool {
		switch code {
		case mh.SHA2_256, mh.SHA2_512, mh.SHAKE_256, mh.DBL_SHA2_256, mh.BLAKE3, mh.IDENTITY,
			mh.SHA3_224, mh.SHA3_256, mh.SHA3_384, mh.SHA3_512,
			mh.KECCAK_224, mh.KECCAK_256, mh.KECCAK_384, mh.KECCAK_512, mh.SHA1:
			return true
		}
		if code >= mh.BLAKE2B_MIN+19 && code <= mh.BLAKE2B_MAX {
			return true
		}
		if code >= mh.BLAKE2S_MIN+19 && code <= mh.BLAKE2S_MAX {
			return true
		}
		return false
	}
	type al struct {
		name    string
		list    verifcid.Allowlist
		allowed func(uint64) bool
	}
	lists := []al{
		{"default", verifcid.DefaultAllowlist, defaultAllowed},
		{"custom{sha2-256,md5}", verifcid.NewAllowlist(map[uint64]bool{mh.SHA2_256: true, mh.MD5: true}), func(c uint64) bool { return c == mh.SHA2_256 || c == mh.MD5 }},
		{"overriding{-sha1,+md5}", verifcid.NewOverridingAllowlist(verifcid.DefaultAllowlist, map[uint64]bool{mh.SHA1: false, mh.MD5: true}), func(c uint64) bool {
			if c == mh.SHA1 {
				return false
			}
			if c == mh.MD5 {
				return true
			}
			return defaultAllowed(c)
		}},
	}
	for _, l := range lists {
		for _, code := range codes {
			for n := 0; n <= 256; n++ {
				h, err := mh.Encode(make([]byte, n), code)
				if err != nil {
					continue
				}
				k := cid.NewCidV1(cid.Raw, h)
				cases++
				want := l.allowed(code)
				if code == mh.IDENTITY {
					want = want && n <= 128
				} else {
					want = want && n >= 20 && n <= 128
				}
				got := verifcid.ValidateCid(l.list, k) == nil
				if got != want && bad == "" {
					bad = fmt.Sprintf("allowlist %s, multihash code 0x%x, digest length %d: ValidateCid accepts=%v, the rule says %v", l.name, code, n, got, want)
				}
			}
		}
	}
	return
}

var c04Once sync.Once
var c04SweepCases int
var c04SweepBad string

func c04Run(t *testing.T, ci any, trace bool) *verifsim.Result {
	first := false
	c04Once.Do(func() { c04SweepCases, c04SweepBad = c04Sweep(); first = true })
	res := c05Run(t, ci, trace)
	if res.Violation == nil && c04SweepBad != "" {
		res.Violation = &verifsim.Violation{Class: "validator-rule", Msg: c04SweepBad}
	}
	if first {
		res.Probes["validator-sweep-cases (once per worker process)"] = c04SweepCases
	}
	return res
}

func TestVerifC04(t *testing.T) {
	verifsim.Main(t, verifsim.Harness{Property: "C04", Name: "blockservice-allowlist", Gen: c05GenFor(true), New: func() any { return &c05Case{} }, Run: c04Run, Sample: c05Sample})
}
