package io

// C15 / C16 — UnixFS directories. Real: BasicDirectory, HAMTDirectory,
// DynamicDirectory, the hamt package (swapValue, shard collapse, the parallel
// shard walk behind EnumLinksAsync / sizeBelowThreshold), merkledag encoding.
// Simulated: the DAG service (simdag: every fetch / store is a scheduling point,
// GetMany delivers in seeded order, the k-th fetch fails), cancellation of an
// enumeration after k results, the scheduler that interleaves the 32 walk
// workers, the GetMany feeders and the consumer.
//
// One generated history drives one directory; C15 judges every result against a
// map model, C16 judges the root CID and the basic/HAMT form against a fresh
// build of the same entry set and against the documented sharding rule.

import (
	"context"
	"errors"
	"fmt"
	"os"
	"sort"
	"strings"
	"sync"
	"testing"
	"time"

	"github.com/ipfs/boxo/internal/verifsim"
	"github.com/ipfs/boxo/internal/verifsim/simdag"
	mdag "github.com/ipfs/boxo/ipld/merkledag"
	ft "github.com/ipfs/boxo/ipld/unixfs"
	"github.com/ipfs/boxo/ipld/unixfs/internal"
	cid "github.com/ipfs/go-cid"
	ipld "github.com/ipfs/go-ipld-format"
	mh "github.com/multiformats/go-multihash"
	"pgregory.net/rapid"
)

type dirOp struct {
	Kind  string `json:"k"` // add rm find links foreach enum enumcancel reload node
	Name  int    `json:"n,omitempty"`
	Child int    `json:"c,omitempty"`
	After int    `json:"after,omitempty"` // enumcancel: cancel after this many results
}

type dirCase struct {
	Cfg       verifsim.Config `json:"cfg"`
	Kind      string          `json:"kind"`       // basic hamt dynamic
	Width     int             `json:"width"`      // 0: not configured (DefaultShardWidth applies)
	DefWidth  int             `json:"def_width"`  // value of the DefaultShardWidth global for the run
	MaxLinks  int             `json:"max_links"`  // 0: unlimited
	PerDir    int             `json:"per_dir"`    // per-directory sharding threshold, 0: use the global
	Global    int             `json:"global"`     // HAMTShardingSize global for the run
	Mode      int             `json:"mode"`       // SizeEstimationMode
	ModeByOpt bool            `json:"mode_by_opt"` // per-directory option instead of the global
	Stat      bool            `json:"stat"`
	CidV1     bool            `json:"cid_v1"`
	Ops       []dirOp         `json:"ops"`
	FailGets  []int           `json:"fail_gets,omitempty"`
}

var (
	dirNamesOnce sync.Once
	dirNames     []string
)

// dirNamePool returns the name pool: short names, names that are prefixes of each
// other, two long names, and groups of names whose HAMT hashes share their first
// 18 / 30 bits (found by search, so that sub-shards nest 2-10 levels deep at every
// shard width).
func dirNamePool() []string {
	dirNamesOnce.Do(func() {
		names := []string{"a", "b", "c", "d", "ab", "abc", "abcd", "z", "0", "name with space", "é",
			strings.Repeat("L", 250) + "1", strings.Repeat("L", 250) + "2"}
		by18 := map[uint32][]string{}
		by30 := map[uint32][]string{}
		var g18, g30 [][]string
		for i := 0; i < 400000 && (len(g18) < 3 || len(g30) < 3); i++ {
			n := fmt.Sprintf("f%d", i)
			h := internal.HAMTHashFunction([]byte(n))
			v := uint32(h[0])<<24 | uint32(h[1])<<16 | uint32(h[2])<<8 | uint32(h[3])
			k18, k30 := v>>14, v>>2
			by18[k18] = append(by18[k18], n)
			if len(by18[k18]) == 4 && len(g18) < 3 {
				g18 = append(g18, by18[k18])
			}
			by30[k30] = append(by30[k30], n)
			if len(by30[k30]) == 2 && len(g30) < 3 {
				g30 = append(g30, by30[k30])
			}
		}
		for _, g := range g18 {
			names = append(names, g...)
		}
		for _, g := range g30 {
			names = append(names, g...)
		}
		dirNames = names
	})
	return dirNames
}

// dirChildren builds the child pool: nodes with different CID lengths and
// cumulative sizes (1-, 2- and 3-byte Tsize varints).
func dirChildren() []ipld.Node {
	var out []ipld.Node
	out = append(out, ft.EmptyDirNode())
	out = append(out, mdag.NewRawNode([]byte("x")))
	p := mdag.NodeWithData(ft.FilePBData([]byte(strings.Repeat("d", 300)), 300))
	out = append(out, p)
	big := mdag.NodeWithData(ft.FolderPBData())
	big.AddRawLink("blob", &ipld.Link{Name: "blob", Size: 20000, Cid: out[1].Cid()})
	out = append(out, big)
	v1 := mdag.NodeWithData(ft.FilePBData([]byte("v1"), 2))
	v1.SetCidBuilder(cid.V1Builder{Codec: cid.DagProtobuf, MhType: mh.SHA2_256})
	out = append(out, v1)
	idn, err := mdag.NewRawNodeWPrefix([]byte("id"), cid.V1Builder{Codec: cid.Raw, MhType: mh.IDENTITY})
	if err != nil {
		panic(err)
	}
	out = append(out, idn)
	return out
}

func dirGen(t *rapid.T, tier string) any {
	c := &dirCase{}
	c.Kind = rapid.SampledFrom([]string{"basic", "hamt", "dynamic", "dynamic", "dynamic"}).Draw(t, "kind")
	c.Width = rapid.SampledFrom([]int{0, 8, 8, 16, 32, 64, 256, 1024}).Draw(t, "width")
	c.DefWidth = rapid.SampledFrom([]int{8, 256}).Draw(t, "defwidth")
	c.MaxLinks = rapid.SampledFrom([]int{0, 0, 0, 1, 2, 3, 5, 8}).Draw(t, "maxlinks")
	c.Mode = rapid.IntRange(0, 2).Draw(t, "mode")
	c.ModeByOpt = rapid.Bool().Draw(t, "modeopt")
	thr := func(label string) int {
		switch rapid.IntRange(0, 5).Draw(t, label+"kind") {
		case 0:
			return 0
		case 1:
			return rapid.IntRange(1, 60).Draw(t, label)
		default:
			return rapid.IntRange(30, 700).Draw(t, label)
		}
	}
	c.Global = thr("global")
	c.PerDir = thr("perdir")
	c.Stat = rapid.IntRange(0, 3).Draw(t, "stat") == 0
	c.CidV1 = rapid.Bool().Draw(t, "cidv1")
	maxOps := 40
	if tier == "thorough" {
		maxOps = 60
	}
	nn := len(dirNamePool())
	// a history works on a small subset of the pool so that replacements and
	// removals of existing names are frequent
	sub := rapid.SliceOfNDistinct(rapid.IntRange(0, nn-1), 2, 14, rapid.ID[int]).Draw(t, "names")
	nops := rapid.IntRange(1, maxOps).Draw(t, "nops")
	for i := 0; i < nops; i++ {
		op := dirOp{Kind: rapid.SampledFrom([]string{"add", "add", "add", "add", "rm", "rm", "rm", "find", "links", "foreach", "enum", "enumcancel", "reload", "reload", "node"}).Draw(t, "kind")}
		switch op.Kind {
		case "add":
			op.Name = rapid.SampledFrom(sub).Draw(t, "name")
			op.Child = rapid.IntRange(0, 5).Draw(t, "child")
		case "rm", "find":
			op.Name = rapid.SampledFrom(sub).Draw(t, "name")
		case "enumcancel":
			op.After = rapid.IntRange(0, 4).Draw(t, "after")
		}
		c.Ops = append(c.Ops, op)
	}
	if rapid.IntRange(0, 3).Draw(t, "faults") == 0 {
		c.FailGets = rapid.SliceOfNDistinct(rapid.IntRange(1, 60), 1, 2, rapid.ID[int]).Draw(t, "failgets")
	}
	c.Cfg = verifsim.GenConfig(t, 400, 80000, time.Minute, nil)
	return c
}

type dirEntry struct {
	c    cid.Cid
	size uint64
}

func (c *dirCase) builder() cid.Builder {
	if c.CidV1 {
		return cid.V1Builder{Codec: cid.DagProtobuf, MhType: mh.SHA2_256}
	}
	return nil
}

func (c *dirCase) statArgs() (os.FileMode, time.Time) {
	if c.Stat {
		return 0o755, time.Unix(1700000000, 12345)
	}
	return 0, time.Time{}
}

func (c *dirCase) opts() []DirectoryOption {
	var o []DirectoryOption
	if c.Width != 0 {
		o = append(o, WithMaxHAMTFanout(c.Width))
	}
	if c.MaxLinks != 0 {
		o = append(o, WithMaxLinks(c.MaxLinks))
	}
	if b := c.builder(); b != nil {
		o = append(o, WithCidBuilder(b))
	}
	if c.Stat {
		m, mt := c.statArgs()
		o = append(o, WithStat(m, mt))
	}
	if c.ModeByOpt {
		o = append(o, WithSizeEstimationMode(SizeEstimationMode(c.Mode)))
	}
	return o
}

func (c *dirCase) effWidth() int {
	if c.Width != 0 {
		return c.Width
	}
	return c.DefWidth
}

func (c *dirCase) effThreshold() int {
	if c.PerDir > 0 {
		return c.PerDir
	}
	return c.Global
}

// newDir builds an empty directory of the case's kind on dserv.
func (c *dirCase) newDir(dserv ipld.DAGService) (Directory, error) {
	switch c.Kind {
	case "basic":
		d, err := NewBasicDirectory(dserv, c.opts()...)
		if err != nil {
			return nil, err
		}
		d.SetHAMTShardingSize(c.PerDir)
		return d, nil
	case "hamt":
		d, err := NewHAMTDirectory(dserv, 0, c.opts()...)
		if err != nil {
			return nil, err
		}
		d.SetHAMTShardingSize(c.PerDir)
		return d, nil
	default:
		d, err := NewDirectory(dserv, c.opts()...)
		if err != nil {
			return nil, err
		}
		d.SetHAMTShardingSize(c.PerDir)
		return d, nil
	}
}

// reload persists the directory and loads it again from its root node, the way
// MFS and the importers do, re-applying the settings a loaded directory cannot know.
func (c *dirCase) reload(ctx context.Context, dserv ipld.DAGService, d Directory) (Directory, error) {
	nd, err := d.GetNode()
	if err != nil {
		return nil, err
	}
	if err := dserv.Add(ctx, nd); err != nil {
		return nil, err
	}
	got, err := dserv.Get(ctx, nd.Cid())
	if err != nil {
		return nil, err
	}
	var out Directory
	switch c.Kind {
	case "basic":
		pn, ok := got.(*mdag.ProtoNode)
		if !ok {
			return nil, errors.New("harness: basic directory root is not a ProtoNode")
		}
		out = NewBasicDirectoryFromNode(dserv, pn)
	case "hamt":
		h, err := NewHAMTDirectoryFromNode(dserv, got)
		if err != nil {
			return nil, err
		}
		m, mt := c.statArgs()
		h.SetStat(m, mt)
		out = h
	default:
		out, err = NewDirectoryFromNode(dserv, got)
		if err != nil {
			return nil, err
		}
	}
	out.SetMaxLinks(c.MaxLinks)
	if c.Width != 0 {
		out.SetMaxHAMTFanout(c.Width)
	} else {
		out.SetMaxHAMTFanout(c.DefWidth)
	}
	if c.ModeByOpt {
		out.SetSizeEstimationMode(SizeEstimationMode(c.Mode))
	}
	out.SetHAMTShardingSize(c.PerDir)
	if b := c.builder(); b != nil {
		out.SetCidBuilder(b)
	}
	return out, nil
}

func dirIsHAMT(d Directory) bool {
	switch x := d.(type) {
	case *HAMTDirectory:
		return true
	case *DynamicDirectory:
		_, ok := x.Directory.(*HAMTDirectory)
		return ok
	}
	return false
}

// setGlobals installs the case's package-level configuration and returns the undo.
func (c *dirCase) setGlobals() func() {
	a, b, w := HAMTShardingSize, HAMTSizeEstimation, DefaultShardWidth
	HAMTShardingSize = c.Global
	DefaultShardWidth = c.DefWidth
	if c.ModeByOpt {
		// the global says something else, so that a directory that loses its own
		// mode on the way is noticed
		HAMTSizeEstimation = SizeEstimationMode((c.Mode + 1) % 3)
	} else {
		HAMTSizeEstimation = SizeEstimationMode(c.Mode)
	}
	return func() { HAMTShardingSize, HAMTSizeEstimation, DefaultShardWidth = a, b, w }
}

func sortedNames(m map[string]dirEntry) []string {
	var ns []string
	for n := range m {
		ns = append(ns, n)
	}
	sort.Strings(ns)
	return ns
}

func shortName(n string) string {
	if len(n) > 12 {
		return fmt.Sprintf("%s..(%d)", n[:6], len(n))
	}
	return n
}

type dirRunner struct {
	c        *dirCase
	s        *verifsim.Sim
	dag      *simdag.DAG
	names    []string
	children []ipld.Node
	model    map[string]dirEntry
	d        Directory
	ctx      context.Context
	// faulted: a mutating operation failed with an injected fetch error; what the
	// directory's bookkeeping looks like afterwards is not judged by C16
	faulted bool
	// judgeMap / judgeCID select the oracle (C15 / C16)
	judgeMap, judgeCID bool
}

func injected(err error) bool {
	return errors.Is(err, simdag.ErrInjected) || errors.Is(err, context.Canceled)
}

// compareListing checks a listing (from any enumeration API) against the model.
func (r *dirRunner) compareListing(desc string, links []*ipld.Link) bool {
	seen := map[string]bool{}
	for _, l := range links {
		if l == nil {
			r.s.Failf("nil-link", "%s: the listing contains a nil link", desc)
			return false
		}
		if seen[l.Name] {
			r.s.Failf("duplicate-entry", "%s: name %q is listed twice", desc, shortName(l.Name))
			return false
		}
		seen[l.Name] = true
		e, ok := r.model[l.Name]
		if !ok {
			r.s.Failf("phantom-entry", "%s: name %q is listed but is not in the directory (model has %d entries)", desc, shortName(l.Name), len(r.model))
			return false
		}
		if !l.Cid.Equals(e.c) {
			r.s.Failf("wrong-entry", "%s: name %q is listed with CID %s, the last value added under it is %s", desc, shortName(l.Name), l.Cid, e.c)
			return false
		}
		if l.Size != e.size {
			r.s.Failf("wrong-entry-size", "%s: name %q is listed with size %d, the node added under it has cumulative size %d", desc, shortName(l.Name), l.Size, e.size)
			return false
		}
	}
	if len(seen) != len(r.model) {
		for _, n := range sortedNames(r.model) {
			if !seen[n] {
				r.s.Failf("missing-entry", "%s: name %q is in the directory (model has %d entries) but is not listed (%d listed)", desc, shortName(n), len(r.model), len(seen))
				return false
			}
		}
	}
	return true
}

// expectSharded is the documented rule: a directory is sharded when its estimated
// size is above the threshold or its entry count is above MaxLinks.
func (r *dirRunner) expectSharded() (bool, string) {
	c := r.c
	t := c.effThreshold()
	if t == 0 {
		return false, "sharding is switched off (threshold 0)"
	}
	over := c.MaxLinks > 0 && len(r.model) > c.MaxLinks
	switch SizeEstimationMode(c.Mode) {
	case SizeEstimationDisabled:
		return over, fmt.Sprintf("size estimation disabled, %d entries, MaxLinks %d", len(r.model), c.MaxLinks)
	case SizeEstimationBlock:
		// the exact size of the single-block form, measured on an encoded node
		m, mt := c.statArgs()
		var nd *mdag.ProtoNode
		if m > 0 || !mt.IsZero() {
			nd = ft.EmptyDirNodeWithStat(m, mt)
		} else {
			nd = ft.EmptyDirNode()
		}
		for _, n := range sortedNames(r.model) {
			e := r.model[n]
			nd.AddRawLink(n, &ipld.Link{Name: n, Size: e.size, Cid: e.c})
		}
		sz := len(nd.RawData())
		return sz > t || over, fmt.Sprintf("block size %d, threshold %d, %d entries, MaxLinks %d", sz, t, len(r.model), c.MaxLinks)
	default:
		sz := 0
		for n, e := range r.model {
			sz += len(n) + e.c.ByteLen()
		}
		return sz > t || over, fmt.Sprintf("links size %d, threshold %d, %d entries, MaxLinks %d", sz, t, len(r.model), c.MaxLinks)
	}
}

// canonical builds the model's entry set afresh (sorted order) on a quiet DAG
// service and returns the root CID and whether the result is a HAMT.
func (r *dirRunner) canonical() (cid.Cid, bool, error) {
	q := simdag.New(nil, nil)
	for _, ch := range r.children {
		q.Put(ch)
	}
	d, err := r.c.newDir(q)
	if err != nil {
		return cid.Undef, false, err
	}
	byCid := map[string]ipld.Node{}
	for _, ch := range r.children {
		byCid[ch.Cid().KeyString()] = ch
	}
	for _, n := range sortedNames(r.model) {
		if err := d.AddChild(context.Background(), n, byCid[r.model[n].c.KeyString()]); err != nil {
			return cid.Undef, false, fmt.Errorf("adding %q: %w", shortName(n), err)
		}
	}
	nd, err := d.GetNode()
	if err != nil {
		return cid.Undef, false, err
	}
	return nd.Cid(), dirIsHAMT(d), nil
}

// checkpoint judges the directory's root against the fresh build and the rule.
func (r *dirRunner) checkpoint(desc string) bool {
	if !r.judgeCID || r.faulted || r.c.Kind == "basic" {
		return true
	}
	if r.c.Kind == "dynamic" && SizeEstimationMode(r.c.Mode) == SizeEstimationBlock && r.c.effThreshold() > 0 {
		// a threshold below the size of the empty directory's own block makes the rule
		// vacuous (an empty directory cannot be sharded): such configurations are not judged
		m, mt := r.c.statArgs()
		empty := ft.EmptyDirNode()
		if m > 0 || !mt.IsZero() {
			empty = ft.EmptyDirNodeWithStat(m, mt)
		}
		if len(empty.RawData()) > r.c.effThreshold() {
			return true
		}
	}
	nd, err := r.d.GetNode()
	if err != nil {
		if injected(err) {
			return true
		}
		r.s.Failf("getnode-failed", "%s: GetNode failed: %v", desc, err)
		return false
	}
	isHAMT := dirIsHAMT(r.d)
	if r.c.Kind == "dynamic" {
		want, why := r.expectSharded()
		// with sharding switched off and MaxLinks set, adds beyond MaxLinks fail:
		// nothing to compare
		if want != isHAMT {
			r.s.Failf("sharded-against-rule", "%s: the directory is %s but the rule says %s (%s)", desc, form(isHAMT), form(want), why)
			return false
		}
	}
	ccid, cHAMT, err := r.canonical()
	if err != nil {
		// a fresh build can legitimately fail (MaxLinks with sharding switched off)
		r.s.Logf("%s: fresh build not possible: %v", desc, err)
		return true
	}
	if cHAMT != isHAMT {
		r.s.Failf("form-depends-on-history", "%s: the directory is %s, a fresh build of the same %d entries is %s", desc, form(isHAMT), len(r.model), form(cHAMT))
		return false
	}
	if !ccid.Equals(nd.Cid()) {
		r.s.Failf("root-cid-depends-on-history", "%s: root CID %s, a fresh build of the same %d entries (%s) has %s", desc, nd.Cid(), len(r.model), form(cHAMT), ccid)
		return false
	}
	return true
}

func form(h bool) string {
	if h {
		return "a HAMT"
	}
	return "basic"
}

// settings checks that the configured values are still in force.
func (r *dirRunner) settings(desc string) bool {
	if !r.judgeCID || r.c.Kind != "dynamic" {
		return true
	}
	c := r.c
	if got := r.d.GetMaxLinks(); got != c.MaxLinks {
		r.s.Failf("setting-lost", "%s: MaxLinks is %d, configured %d (the directory is %s)", desc, got, c.MaxLinks, form(dirIsHAMT(r.d)))
		return false
	}
	if got := r.d.GetMaxHAMTFanout(); got != c.effWidth() {
		r.s.Failf("setting-lost", "%s: MaxHAMTFanout is %d, configured %d (the directory is %s)", desc, got, c.effWidth(), form(dirIsHAMT(r.d)))
		return false
	}
	if got := r.d.GetHAMTShardingSize(); got != c.PerDir {
		r.s.Failf("setting-lost", "%s: the per-directory sharding threshold is %d, configured %d (the directory is %s)", desc, got, c.PerDir, form(dirIsHAMT(r.d)))
		return false
	}
	if got := r.d.GetSizeEstimationMode(); got != SizeEstimationMode(c.Mode) {
		r.s.Failf("setting-lost", "%s: the size estimation mode is %d, configured %d (the directory is %s)", desc, got, c.Mode, form(dirIsHAMT(r.d)))
		return false
	}
	return true
}

// resolve finds out, without faults, whether a failed mutation took effect.
func (r *dirRunner) resolve(desc, name string, after *dirEntry) bool {
	saved := r.dag.Faults
	r.dag.Faults = nil
	defer func() { r.dag.Faults = saved }()
	nd, err := r.d.Find(r.ctx, name)
	before, had := r.model[name]
	switch {
	case err == nil:
		if had && nd.Cid().Equals(before.c) {
			return true
		}
		if after != nil && nd.Cid().Equals(after.c) {
			r.model[name] = *after
			return true
		}
		r.s.Failf("wrong-entry-after-failure", "%s failed with a fetch error; afterwards %q resolves to %s, neither the old nor the new value", desc, shortName(name), nd.Cid())
		return false
	case errors.Is(err, os.ErrNotExist):
		if !had {
			return true
		}
		if after == nil {
			delete(r.model, name)
			return true
		}
		r.s.Failf("entry-lost-after-failure", "%s failed with a fetch error; afterwards %q, present before, is gone", desc, shortName(name))
		return false
	default:
		r.s.Failf("unexpected-error", "%s: Find(%q) after the failure: %v", desc, shortName(name), err)
		return false
	}
}

func (r *dirRunner) run() {
	c, s := r.c, r.s
	for oi, op := range c.Ops {
		desc := fmt.Sprintf("op#%d %s", oi, op.Kind)
		switch op.Kind {
		case "add":
			name := r.names[op.Name%len(r.names)]
			ch := r.children[op.Child%len(r.children)]
			sz, _ := ch.Size()
			after := dirEntry{c: ch.Cid(), size: sz}
			_, had := r.model[name]
			desc = fmt.Sprintf("%s %q child#%d (%d entries, %s)", desc, shortName(name), op.Child, len(r.model), form(dirIsHAMT(r.d)))
			s.Logf("%s", desc)
			err := r.d.AddChild(r.ctx, name, ch)
			if err != nil {
				if injected(err) && len(c.FailGets) > 0 {
					r.faulted = true
					if !r.resolve(desc, name, &after) {
						return
					}
					continue
				}
				full := c.MaxLinks > 0 && !had && len(r.model) >= c.MaxLinks
				if full && (c.Kind == "basic" || (c.Kind == "dynamic" && c.effThreshold() == 0)) {
					s.Logf("%s refused: MaxLinks reached", desc)
					continue // documented: a basic directory refuses more than MaxLinks entries
				}
				s.Failf("add-failed", "%s failed: %v", desc, err)
				return
			}
			if c.Kind == "basic" && c.MaxLinks > 0 && !had && len(r.model) >= c.MaxLinks {
				s.Failf("maxlinks-ignored", "%s succeeded although the basic directory already has MaxLinks=%d entries", desc, c.MaxLinks)
				return
			}
			r.model[name] = after
			if !r.settings(desc) || !r.checkpoint(desc) {
				return
			}
		case "rm":
			name := r.names[op.Name%len(r.names)]
			_, had := r.model[name]
			desc = fmt.Sprintf("%s %q (%d entries, %s)", desc, shortName(name), len(r.model), form(dirIsHAMT(r.d)))
			s.Logf("%s", desc)
			err := r.d.RemoveChild(r.ctx, name)
			if err != nil && injected(err) && len(c.FailGets) > 0 {
				r.faulted = true
				if !r.resolve(desc, name, nil) {
					return
				}
				continue
			}
			if !had {
				if r.judgeMap && !errors.Is(err, os.ErrNotExist) {
					s.Failf("remove-missing", "%s: removing a name that is not in the directory returned %v, not 'not exist'", desc, err)
					return
				}
				if err == nil {
					continue
				}
				if !errors.Is(err, os.ErrNotExist) {
					s.Failf("remove-failed", "%s failed: %v", desc, err)
					return
				}
				continue
			}
			if err != nil {
				s.Failf("remove-failed", "%s: removing an existing name failed: %v", desc, err)
				return
			}
			delete(r.model, name)
			if !r.settings(desc) || !r.checkpoint(desc) {
				return
			}
		case "find":
			name := r.names[op.Name%len(r.names)]
			e, had := r.model[name]
			desc = fmt.Sprintf("%s %q", desc, shortName(name))
			s.Logf("%s", desc)
			nd, err := r.d.Find(r.ctx, name)
			if err != nil && injected(err) && len(c.FailGets) > 0 {
				continue
			}
			if !r.judgeMap {
				continue
			}
			if !had {
				if !errors.Is(err, os.ErrNotExist) {
					s.Failf("find-missing", "%s: looking up a name that is not in the directory returned (%v, %v), not 'not exist'", desc, nd != nil, err)
					return
				}
				continue
			}
			if err != nil {
				s.Failf("find-failed", "%s: looking up an existing name failed: %v", desc, err)
				return
			}
			if !nd.Cid().Equals(e.c) {
				s.Failf("wrong-entry", "%s: resolves to %s, the last value added under it is %s", desc, nd.Cid(), e.c)
				return
			}
		case "links":
			s.Logf("%s", desc)
			ls, err := r.d.Links(r.ctx)
			if err != nil {
				if injected(err) && len(c.FailGets) > 0 {
					continue
				}
				s.Failf("links-failed", "%s failed: %v", desc, err)
				return
			}
			if r.judgeMap && !r.compareListing(desc, ls) {
				return
			}
		case "foreach":
			s.Logf("%s", desc)
			var ls []*ipld.Link
			err := r.d.ForEachLink(r.ctx, func(l *ipld.Link) error {
				cp := *l
				ls = append(ls, &cp)
				return nil
			})
			if err != nil {
				if injected(err) && len(c.FailGets) > 0 {
					continue
				}
				s.Failf("foreach-failed", "%s failed: %v", desc, err)
				return
			}
			if r.judgeMap && !r.compareListing(desc, ls) {
				return
			}
		case "enum", "enumcancel":
			s.Logf("%s after=%d", desc, op.After)
			ectx, cancel := context.WithCancel(r.ctx)
			var ls []*ipld.Link
			var eerr error
			n := 0
			cancelled := false
			ch := r.d.EnumLinksAsync(ectx)
			for res := range ch {
				s.Yield("enum.recv")
				if res.Err != nil {
					eerr = res.Err
					continue
				}
				cp := *res.Link
				ls = append(ls, &cp)
				n++
				if op.Kind == "enumcancel" && n >= op.After && !cancelled {
					cancelled = true
					s.Fault("enumeration-cancelled")
					cancel()
				}
			}
			if op.Kind == "enumcancel" && op.After == 0 {
				cancelled = true
			}
			cancel()
			if eerr != nil {
				if injected(eerr) && (len(c.FailGets) > 0 || cancelled) {
					continue
				}
				s.Failf("enum-failed", "%s failed: %v", desc, eerr)
				return
			}
			if !r.judgeMap {
				continue
			}
			if cancelled {
				// a cancelled enumeration may stop anywhere; what it did deliver
				// must be entries of the directory, each once
				saved := r.model
				sub := map[string]dirEntry{}
				for _, l := range ls {
					if e, ok := saved[l.Name]; ok {
						sub[l.Name] = e
					}
				}
				r.model = sub
				ok := r.compareListing(desc+" (cancelled)", ls)
				r.model = saved
				if !ok {
					return
				}
				continue
			}
			if !r.compareListing(desc, ls) {
				return
			}
		case "reload":
			s.Logf("%s (%d entries, %s)", desc, len(r.model), form(dirIsHAMT(r.d)))
			nd, err := c.reload(r.ctx, r.dag, r.d)
			if err != nil {
				if injected(err) && len(c.FailGets) > 0 {
					continue
				}
				s.Failf("reload-failed", "%s failed: %v", desc, err)
				return
			}
			r.d = nd
			if r.judgeMap {
				ls, err := r.d.Links(r.ctx)
				if err != nil {
					if injected(err) && len(c.FailGets) > 0 {
						continue
					}
					s.Failf("links-failed", "%s: listing after the reload failed: %v", desc, err)
					return
				}
				if !r.compareListing(desc+" (listing of the reloaded directory)", ls) {
					return
				}
			}
			if !r.checkpoint(desc) {
				return
			}
		case "node":
			s.Logf("%s", desc)
			if !r.checkpoint(desc) {
				return
			}
		}
	}
	// final judgement without faults
	r.dag.Faults = nil
	if r.judgeMap {
		ls, err := r.d.Links(r.ctx)
		if err != nil {
			s.Failf("links-failed", "final listing failed: %v", err)
			return
		}
		if !r.compareListing("final listing", ls) {
			return
		}
		for _, n := range r.names {
			nd, err := r.d.Find(r.ctx, n)
			e, had := r.model[n]
			if had && (err != nil || !nd.Cid().Equals(e.c)) {
				s.Failf("wrong-entry", "final lookup of %q: (%v, %v), the directory holds %s under it", shortName(n), nd != nil, err, e.c)
				return
			}
			if !had && !errors.Is(err, os.ErrNotExist) {
				s.Failf("find-missing", "final lookup of %q, which is not in the directory, returned (%v, %v)", shortName(n), nd != nil, err)
				return
			}
		}
	}
	r.checkpoint("end of history")
}

func dirRun(judgeMap, judgeCID bool) func(t *testing.T, ci any, trace bool) *verifsim.Result {
	return func(t *testing.T, ci any, trace bool) *verifsim.Result {
		c := ci.(*dirCase)
		return verifsim.Run(t, c.Cfg, trace, func(s *verifsim.Sim) {
			undo := c.setGlobals()
			defer undo()
			dag := simdag.New(s, nil)
			children := dirChildren()
			for _, ch := range children {
				dag.Put(ch)
			}
			for _, k := range c.FailGets {
				dag.Faults = append(dag.Faults, simdag.Fault{Op: "get", Nth: k})
			}
			ctx, cancelAll := context.WithCancel(context.Background())
			defer cancelAll()
			r := &dirRunner{c: c, s: s, dag: dag, names: dirNamePool(), children: children, model: map[string]dirEntry{}, ctx: ctx, judgeMap: judgeMap, judgeCID: judgeCID}
			s.Go("client", func() {
				d, err := c.newDir(dag)
				if err != nil {
					s.Failf("harness-build", "creating the directory failed: %v", err)
					return
				}
				r.d = d
				r.run()
			})
			done := s.Loop()
			if !done && !s.Failed() {
				if s.DeadlockSeen() {
					s.Failf("deadlock", "the client is blocked and nothing can wake it:\n%s", verifsim.StuckStacks())
				} else if s.Capped() {
					s.Failf("step-cap", "the history did not finish within %d scheduling steps", c.Cfg.MaxSteps)
				}
			}
			s.Drain()
			cancelAll()
		})
	}
}

func dirSample(c any) any {
	cc := *c.(*dirCase)
	cc.Cfg.Tape = nil
	return cc
}

func TestVerifC15(t *testing.T) {
	verifsim.Main(t, verifsim.Harness{
		Property: "C15",
		Name:     "directory-map",
		Gen:      dirGen,
		New:      func() any { return &dirCase{} },
		Run:      dirRun(true, false),
		Sample:   dirSample,
	})
}

func TestVerifC16(t *testing.T) {
	verifsim.Main(t, verifsim.Harness{
		Property: "C16",
		Name:     "directory-cid",
		Gen:      dirGen,
		New:      func() any { return &dirCase{} },
		Run:      dirRun(false, true),
		Sample:   dirSample,
	})
}
