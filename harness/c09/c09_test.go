package io_test

// C09 — the UnixFS file reader behaves as a seekable byte reader. Real:
// uio.DagReader, go-ipld-format Walker / NavigableIPLDNode (child preloading
// through GetMany promises, cancelled and retried across Seek and context
// changes), merkledag decoding, the importers that build the file. Simulated:
// the DAG service (simdag: every fetch is a scheduling point, GetMany delivers
// in seeded order, fetch errors per plan), context cancellation at the k-th
// fetch, the scheduler. Oracle: a byte slice and a position, i.e. what
// bytes.Reader does with the same calls.

import (
	"bytes"
	"context"
	"errors"
	"fmt"
	stdio "io"
	"testing"
	"time"

	chunker "github.com/ipfs/boxo/chunker"
	"github.com/ipfs/boxo/internal/verifsim"
	"github.com/ipfs/boxo/internal/verifsim/simdag"
	mdag "github.com/ipfs/boxo/ipld/merkledag"
	ft "github.com/ipfs/boxo/ipld/unixfs"
	"github.com/ipfs/boxo/ipld/unixfs/importer/balanced"
	"github.com/ipfs/boxo/ipld/unixfs/importer/helpers"
	"github.com/ipfs/boxo/ipld/unixfs/importer/trickle"
	uio "github.com/ipfs/boxo/ipld/unixfs/io"
	"github.com/ipfs/boxo/ipld/unixfs/mod"
	ipld "github.com/ipfs/go-ipld-format"
	"pgregory.net/rapid"
)

type c09Op struct {
	Kind   string `json:"k"` // read ctxread seek writeto
	N      int    `json:"n,omitempty"`
	Off    int    `json:"off,omitempty"`
	Whence int    `json:"w,omitempty"`
	// CancelAt: for ctxread, cancel the context at this (1-based) fetch of the call; 0 = never
	CancelAt int `json:"cancel_at,omitempty"`
}

type c09Mod struct {
	Kind string `json:"k"` // write truncate
	Off  int    `json:"off"`
	N    int    `json:"n,omitempty"`
	Seed int    `json:"seed,omitempty"`
}

type c09Case struct {
	Cfg       verifsim.Config `json:"cfg"`
	Size      int             `json:"size"`
	Chunk     int             `json:"chunk"`
	MaxLinks  int             `json:"max_links"`
	Trickle   bool            `json:"trickle"`
	RawLeaves bool            `json:"raw_leaves"`
	DataSeed  int             `json:"data_seed"`
	// Mods are applied to the imported file with the DagModifier before the reader
	// operations start (quietly: the modifier is not under test here)
	Mods     []c09Mod `json:"mods,omitempty"`
	Ops      []c09Op  `json:"ops"`
	FailGets []int    `json:"fail_gets,omitempty"` // ordinals (over the whole run) of fetches that fail
}

func c09Gen(t *rapid.T, tier string) any {
	c := &c09Case{}
	c.Chunk = rapid.SampledFrom([]int{1, 7, 16, 100, 512, 4096}).Draw(t, "chunk")
	c.MaxLinks = rapid.SampledFrom([]int{2, 3, 5, 11, 174}).Draw(t, "maxlinks")
	maxChunks := 60
	if tier == "thorough" {
		maxChunks = 400
	}
	nchunks := rapid.IntRange(0, maxChunks).Draw(t, "nchunks")
	c.Size = nchunks*c.Chunk + rapid.SampledFrom([]int{0, 0, 1, c.Chunk / 2, c.Chunk - 1}).Draw(t, "tail")
	if c.Size < 0 {
		c.Size = 0
	}
	c.Trickle = rapid.Bool().Draw(t, "trickle")
	c.RawLeaves = rapid.Bool().Draw(t, "raw")
	c.DataSeed = rapid.IntRange(0, 1<<20).Draw(t, "dseed")
	if rapid.IntRange(0, 2).Draw(t, "modified") == 0 {
		nm := rapid.IntRange(1, 4).Draw(t, "nmods")
		for i := 0; i < nm; i++ {
			m := c09Mod{Kind: rapid.SampledFrom([]string{"write", "write", "truncate"}).Draw(t, "mkind")}
			m.Off = rapid.SampledFrom([]int{0, 1, c.Chunk - 1, c.Chunk, c.Chunk + 1, c.Size / 2, c.Size - 1, c.Size, c.Size + 1, c.Size + c.Chunk + 3}).Draw(t, "moff")
			if m.Off < 0 {
				m.Off = 0
			}
			if m.Kind == "write" {
				m.N = rapid.SampledFrom([]int{1, c.Chunk - 1, c.Chunk, c.Chunk + 1, 3*c.Chunk + 2}).Draw(t, "mn")
				if m.N < 1 {
					m.N = 1
				}
				m.Seed = rapid.IntRange(0, 1<<20).Draw(t, "mseed")
			}
			c.Mods = append(c.Mods, m)
		}
	}
	nops := rapid.IntRange(1, 30).Draw(t, "nops")
	for i := 0; i < nops; i++ {
		op := c09Op{Kind: rapid.SampledFrom([]string{"read", "read", "ctxread", "seek", "seek", "writeto"}).Draw(t, "kind")}
		switch op.Kind {
		case "read", "ctxread":
			op.N = rapid.SampledFrom([]int{0, 1, c.Chunk - 1, c.Chunk, c.Chunk + 1, 2 * c.Chunk, 3*c.Chunk + 1, 10 * c.Chunk}).Draw(t, "n")
			if op.N < 0 {
				op.N = 0
			}
			if op.Kind == "ctxread" && rapid.IntRange(0, 3).Draw(t, "cancel") == 0 {
				op.CancelAt = rapid.IntRange(1, 6).Draw(t, "cancelat")
			}
		case "seek":
			op.Whence = rapid.IntRange(0, 2).Draw(t, "whence")
			base := rapid.SampledFrom([]int{0, 1, c.Chunk - 1, c.Chunk, c.Chunk + 1, c.Size / 2, c.Size - c.Chunk, c.Size - 1, c.Size, c.Size + 1, c.Size + 2}).Draw(t, "base")
			switch op.Whence {
			case 0:
				op.Off = base - rapid.IntRange(0, 2).Draw(t, "neg")
			case 1:
				op.Off = rapid.SampledFrom([]int{-c.Size - 2, -2 * c.Chunk, -c.Chunk, -1, 0, 1, c.Chunk, 2*c.Chunk + 1, c.Size + 2}).Draw(t, "rel")
			default:
				op.Off = -base + rapid.IntRange(0, 2).Draw(t, "endoff")
			}
		}
		c.Ops = append(c.Ops, op)
	}
	if rapid.IntRange(0, 3).Draw(t, "faults") == 0 {
		c.FailGets = rapid.SliceOfNDistinct(rapid.IntRange(1, 80), 1, 2, rapid.ID[int]).Draw(t, "failgets")
	}
	c.Cfg = verifsim.GenConfig(t, 300, 60000, time.Minute, nil)
	return c
}

func c09Data(seed, n int) []byte {
	b := make([]byte, n)
	x := uint32(seed*2654435761 + 977)
	for i := range b {
		x = x*1664525 + 1013904223
		b[i] = byte(x >> 24)
	}
	return b
}

type c09Writer struct {
	buf  bytes.Buffer
	s    *verifsim.Sim
	frag int
}

func (w *c09Writer) Write(p []byte) (int, error) {
	w.s.Yield("writeto.write")
	return w.buf.Write(p)
}

// c09Flatten concatenates the file's bytes by a plain depth-first walk.
func c09Flatten(dag *simdag.DAG, n ipld.Node) ([]byte, error) {
	switch x := n.(type) {
	case *mdag.RawNode:
		return x.RawData(), nil
	case *mdag.ProtoNode:
		fsn, err := ft.FSNodeFromBytes(x.Data())
		if err != nil {
			return nil, err
		}
		out := append([]byte(nil), fsn.Data()...)
		for _, l := range x.Links() {
			ch, ok := dag.Nodes[l.Cid.KeyString()]
			if !ok {
				return nil, fmt.Errorf("missing block %s", l.Cid)
			}
			b, err := c09Flatten(dag, ch)
			if err != nil {
				return nil, err
			}
			out = append(out, b...)
		}
		return out, nil
	}
	return nil, errors.New("unexpected node type")
}

func c09Run(t *testing.T, ci any, trace bool) *verifsim.Result {
	c := ci.(*c09Case)
	return verifsim.Run(t, c.Cfg, trace, func(s *verifsim.Sim) {
		data := c09Data(c.DataSeed, c.Size)
		var faults []simdag.Fault
		for _, k := range c.FailGets {
			faults = append(faults, simdag.Fault{Op: "get", Nth: k})
		}
		dag := simdag.New(s, nil)
		dag.Quiet = true
		dbp := helpers.DagBuilderParams{Dagserv: dag, Maxlinks: c.MaxLinks, RawLeaves: c.RawLeaves}
		db, err := dbp.New(chunker.NewSizeSplitter(bytes.NewReader(data), int64(c.Chunk)))
		if err != nil {
			panic(err)
		}
		var root ipld.Node
		if c.Trickle {
			root, err = trickle.Layout(db)
		} else {
			root, err = balanced.Layout(db)
		}
		if err != nil {
			s.Failf("harness-build", "building the file failed: %v", err)
			return
		}
		if len(c.Mods) > 0 {
			dm, err := mod.NewDagModifier(context.Background(), root, dag, func(r stdio.Reader) chunker.Splitter {
				return chunker.NewSizeSplitter(r, int64(c.Chunk))
			})
			if err != nil {
				s.Failf("harness-build", "NewDagModifier failed: %v", err)
				return
			}
			dm.MaxLinks = c.MaxLinks
			for _, m := range c.Mods {
				switch m.Kind {
				case "write":
					b := c09Data(m.Seed, m.N)
					if _, err := dm.WriteAt(b, int64(m.Off)); err != nil {
						s.Logf("modifier write failed (%v): file not judged", err)
						return
					}
					if m.Off+m.N > len(data) {
						data = append(data, make([]byte, m.Off+m.N-len(data))...)
					}
					copy(data[m.Off:], b)
				case "truncate":
					if err := dm.Truncate(int64(m.Off)); err != nil {
						s.Logf("modifier truncate failed (%v): file not judged", err)
						return
					}
					if m.Off <= len(data) {
						data = data[:m.Off]
					} else {
						data = append(data, make([]byte, m.Off-len(data))...)
					}
				}
			}
			root, err = dm.GetNode()
			if err != nil {
				s.Logf("modifier GetNode failed (%v): file not judged", err)
				return
			}
			// the modifier is not under test here: a file whose blocks, concatenated by
			// a plain recursive walk, are not the bytes the operations should have
			// produced is left to the modifier's own property
			flat, err := c09Flatten(dag, root)
			if err != nil || !bytes.Equal(flat, data) {
				s.Probe("modifier-built-file-differs-from-byte-model")
				s.Logf("modifier-built file differs from the byte model (err=%v, %d vs %d bytes): not judged", err, len(flat), len(data))
				return
			}
			s.Probe("modifier-built-file")
		}
		dag.Quiet = false
		dag.Faults = faults
		ctx, cancelAll := context.WithCancel(context.Background())
		defer cancelAll()

		s.Go("reader", func() {
			dr, err := uio.NewDagReader(ctx, root, dag)
			if err != nil {
				s.Failf("open-failed", "NewDagReader failed on a file built by the importer: %v", err)
				return
			}
			defer dr.Close()
			if int(dr.Size()) != len(data) {
				s.Failf("wrong-size", "Size() = %d for a file of %d bytes", dr.Size(), len(data))
				return
			}
			pos := int64(0)
			size := int64(len(data))
			fetchErr := func(err error) bool {
				return errors.Is(err, simdag.ErrInjected) || errors.Is(err, context.Canceled)
			}
			for oi, op := range c.Ops {
				desc := fmt.Sprintf("op#%d %s", oi, op.Kind)
				switch op.Kind {
				case "read", "ctxread":
					buf := make([]byte, op.N)
					var n int
					var err error
					cancelled := false
					if op.Kind == "read" {
						s.Logf("%s n=%d at %d", desc, op.N, pos)
						n, err = dr.Read(buf)
					} else {
						cctx, cancel := context.WithCancel(ctx)
						if op.CancelAt > 0 {
							seen := 0
							dag.Pre = func(string) {
								seen++
								if seen == op.CancelAt {
									cancelled = true
									s.Fault("read-context-cancelled")
									cancel()
								}
							}
						}
						s.Logf("%s n=%d at %d cancel_at=%d", desc, op.N, pos, op.CancelAt)
						n, err = dr.CtxReadFull(cctx, buf)
						dag.Pre = nil
						cancel()
					}
					var want []byte
					if pos < size {
						end := pos + int64(op.N)
						if end > size {
							end = size
						}
						want = data[pos:end]
					}
					if n < 0 || n > len(buf) {
						s.Failf("bad-count", "%s: returned n=%d for a buffer of %d bytes", desc, n, len(buf))
						return
					}
					if n > len(want) || !bytes.Equal(buf[:n], want[:n]) {
						s.Failf("wrong-bytes", "%s at offset %d of %d (buffer %d): returned %d bytes that are not the file's bytes at that offset (error: %v)", desc, pos, size, op.N, n, err)
						return
					}
					if err != nil && err != stdio.EOF {
						if fetchErr(err) && (cancelled || len(c.FailGets) > 0) {
							s.Logf("%s failed after %d bytes: fetch error", desc, n)
							return // a failed fetch ends the history; the bytes so far were right
						}
						s.Failf("unexpected-error", "%s at offset %d of %d: %v", desc, pos, size, err)
						return
					}
					if n < len(want) {
						s.Failf("short-read", "%s at offset %d of %d (buffer %d): returned %d bytes and error %v, an in-memory reader returns %d", desc, pos, size, op.N, n, err, len(want))
						return
					}
					pos2 := pos + int64(n)
					if err == stdio.EOF && pos2 < size {
						s.Failf("early-eof", "%s: io.EOF at offset %d of %d", desc, pos2, size)
						return
					}
					if err == nil && op.N > 0 && n == 0 {
						s.Failf("missing-eof", "%s at offset %d of %d: (0, nil) for a non-empty buffer", desc, pos, size)
						return
					}
					if pos <= size {
						pos = pos2
					}
				case "seek":
					s.Logf("%s off=%d whence=%d at %d", desc, op.Off, op.Whence, pos)
					var target int64
					switch op.Whence {
					case stdio.SeekStart:
						target = int64(op.Off)
					case stdio.SeekCurrent:
						target = pos + int64(op.Off)
					default:
						target = size + int64(op.Off)
					}
					got, err := dr.Seek(int64(op.Off), op.Whence)
					if target < 0 {
						if err == nil {
							s.Failf("negative-seek-accepted", "%s: seeking to %d succeeded (returned %d)", desc, target, got)
							return
						}
						continue // position unchanged
					}
					if err != nil {
						if fetchErr(err) && len(c.FailGets) > 0 {
							s.Logf("%s failed: fetch error", desc)
							return
						}
						s.Failf("seek-failed", "%s to %d in a file of %d bytes failed: %v", desc, target, size, err)
						return
					}
					if got != target {
						s.Failf("wrong-seek-offset", "%s: Seek returned %d, an in-memory reader returns %d", desc, got, target)
						return
					}
					pos = target
				case "writeto":
					s.Logf("%s at %d", desc, pos)
					w := &c09Writer{s: s}
					n, err := dr.WriteTo(w)
					var want []byte
					if pos < size {
						want = data[pos:]
					}
					got := w.buf.Bytes()
					if len(got) > len(want) || !bytes.Equal(got, want[:len(got)]) {
						s.Failf("wrong-bytes", "%s at offset %d of %d: wrote %d bytes that are not the rest of the file (error: %v)", desc, pos, size, len(got), err)
						return
					}
					if err != nil {
						if fetchErr(err) && len(c.FailGets) > 0 {
							s.Logf("%s failed after %d bytes: fetch error", desc, len(got))
							return
						}
						s.Failf("unexpected-error", "%s at offset %d of %d: %v", desc, pos, size, err)
						return
					}
					if len(got) != len(want) || n != int64(len(want)) {
						s.Failf("short-writeto", "%s at offset %d of %d: wrote %d bytes and returned %d, the rest of the file has %d", desc, pos, size, len(got), n, len(want))
						return
					}
					if pos < size {
						pos = size
					}
				}
			}
		})
		done := s.Loop()
		if !done && !s.Failed() {
			if s.DeadlockSeen() {
				s.Failf("deadlock", "the reader is blocked and nothing can wake it:\n%s", verifsim.StuckStacks())
			} else if s.Capped() {
				s.Failf("step-cap", "the reader did not finish within %d scheduling steps", c.Cfg.MaxSteps)
			}
		}
		s.Drain()
		cancelAll()
	})
}

func TestVerifC09(t *testing.T) {
	verifsim.Main(t, verifsim.Harness{
		Property: "C09",
		Name:     "dagreader",
		Gen:      c09Gen,
		New:      func() any { return &c09Case{} },
		Run:      c09Run,
		Sample: func(c any) any {
			cc := *c.(*c09Case)
			cc.Cfg.Tape = nil
			return cc
		},
	})
}
