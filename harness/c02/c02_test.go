package blockstore

// C02 — caching blockstore layers are observationally transparent.
// Real: CachedBlockstore (two-queue cache and/or Bloom cache) over the default
// blockstore. Simulated: datastore (snapshot enumeration, per-entry yields,
// injected errors), scheduler, clock. Oracle: per-multihash linearizability
// against a present/absent register (porcupine), evaluated after the run.

import (
	"bytes"
	"context"
	"fmt"
	"testing"
	"time"

	"github.com/anishathalye/porcupine"
	"github.com/ipfs/boxo/internal/verifsim"
	"github.com/ipfs/boxo/internal/verifsim/simds"
	blocks "github.com/ipfs/go-block-format"
	cid "github.com/ipfs/go-cid"
	ipld "github.com/ipfs/go-ipld-format"
	mh "github.com/multiformats/go-multihash"
	"pgregory.net/rapid"
)

type c02Op struct {
	Kind  string `json:"k"` // put putmany delete has get getsize view rebuild wait cancelbuild sleep
	Key   int    `json:"key,omitempty"`
	Keys  []int  `json:"keys,omitempty"`
	Alias bool   `json:"alias,omitempty"` // use the dag-pb CID form of the same multihash
}

type c02Case struct {
	Cfg          verifsim.Config `json:"cfg"`
	TQSize       int             `json:"tq_size"`
	BloomBytes   int             `json:"bloom_bytes"`
	BloomHashes  int             `json:"bloom_hashes"`
	WriteThrough bool            `json:"write_through"`
	NKeys        int             `json:"nkeys"`
	Prepop       []int           `json:"prepop"`
	Clients      [][]c02Op       `json:"clients"`
	Faults       []simds.Fault   `json:"faults"`
}

var c02Sizes = []int{0, 1, 5, 32, 64, 100, 7, 300}

func c02Block(i int, alias bool) blocks.Block {
	data := bytes.Repeat([]byte{byte('a' + i)}, c02Sizes[i%len(c02Sizes)])
	h, _ := mh.Sum(data, mh.SHA2_256, -1)
	codec := uint64(cid.Raw)
	if alias {
		codec = cid.DagProtobuf
	}
	b, _ := blocks.NewBlockWithCid(data, cid.NewCidV1(codec, h))
	return b
}

func c02Gen(t *rapid.T, tier string) any {
	c := &c02Case{}
	mode := rapid.IntRange(0, 2).Draw(t, "mode") // 0 tq only, 1 bloom only, 2 both
	if mode != 1 {
		// sizes 1..3 are rejected by the 2Q constructor (CachedBlockstore returns an error)
		c.TQSize = rapid.SampledFrom([]int{4, 5, 8, 16, 64}).Draw(t, "tq")
	}
	if mode != 0 {
		c.BloomBytes = rapid.SampledFrom([]int{1, 2, 8, 64, 512}).Draw(t, "bloomBytes")
		c.BloomHashes = rapid.IntRange(1, 7).Draw(t, "bloomHashes")
	}
	c.WriteThrough = rapid.Bool().Draw(t, "wt")
	c.NKeys = rapid.IntRange(1, 6).Draw(t, "nkeys")
	c.Prepop = rapid.SliceOfNDistinct(rapid.IntRange(0, c.NKeys-1), 0, c.NKeys, func(i int) int { return i }).Draw(t, "prepop")
	kinds := []string{"put", "put", "putmany", "delete", "delete", "has", "has", "get", "getsize", "view"}
	if c.BloomBytes > 0 {
		kinds = append(kinds, "rebuild", "wait")
		if rapid.IntRange(0, 5).Draw(t, "withcancel") == 0 {
			kinds = append(kinds, "cancelbuild")
		}
	}
	maxOps := 8
	if tier == "thorough" {
		maxOps = 16
	}
	opGen := rapid.Custom(func(t *rapid.T) c02Op {
		op := c02Op{Kind: rapid.SampledFrom(kinds).Draw(t, "kind")}
		switch op.Kind {
		case "putmany":
			op.Keys = rapid.SliceOfN(rapid.IntRange(0, c.NKeys-1), 0, 4).Draw(t, "keys")
		case "rebuild", "wait", "cancelbuild":
		default:
			op.Key = rapid.IntRange(0, c.NKeys-1).Draw(t, "key")
		}
		op.Alias = rapid.IntRange(0, 3).Draw(t, "alias") == 0
		return op
	})
	nc := rapid.IntRange(1, 4).Draw(t, "nclients")
	for i := 0; i < nc; i++ {
		c.Clients = append(c.Clients, rapid.SliceOfN(opGen, 1, maxOps).Draw(t, "ops"))
	}
	if rapid.IntRange(0, 2).Draw(t, "faulty") == 0 {
		fg := rapid.Custom(func(t *rapid.T) simds.Fault {
			return simds.Fault{
				Op:  rapid.SampledFrom([]string{"query-next", "query-next", "query-next", "query", "has", "put", "get", "getsize", "delete", "commit", "batch"}).Draw(t, "fop"),
				Nth: rapid.IntRange(1, 8).Draw(t, "nth"),
			}
		})
		c.Faults = rapid.SliceOfN(fg, 1, 3).Draw(t, "faults")
	}
	maxTape := 400
	if tier == "thorough" {
		maxTape = 1200
	}
	c.Cfg = verifsim.GenConfig(t, maxTape, 4000, time.Minute, nil)
	if rapid.IntRange(0, 3).Draw(t, "bug") == 0 {
		c.Cfg.Buggify = append(c.Cfg.Buggify, "query-reverse")
	}
	if rapid.IntRange(0, 2).Draw(t, "silentcancel") == 0 {
		c.Cfg.Buggify = append(c.Cfg.Buggify, "query-silent-cancel")
	}
	if rapid.IntRange(0, 1).Draw(t, "postyield") == 0 {
		c.Cfg.Buggify = append(c.Cfg.Buggify, "ds-post-yield")
	}
	if rapid.IntRange(0, 1).Draw(t, "batchkeeps") == 0 {
		c.Cfg.Buggify = append(c.Cfg.Buggify, "batch-keeps-ops")
	}
	return c
}

type c02In struct {
	kind string
	key  int
}

type c02Out struct {
	err   bool // the operation failed with an error other than not-found
	found bool
	size  int
	data  []byte
}

var c02Model = porcupine.Model{
	Partition: func(history []porcupine.Operation) [][]porcupine.Operation {
		m := map[int][]porcupine.Operation{}
		var keys []int
		for _, op := range history {
			k := op.Input.(c02In).key
			if _, ok := m[k]; !ok {
				keys = append(keys, k)
			}
			m[k] = append(m[k], op)
		}
		out := make([][]porcupine.Operation, 0, len(keys))
		for _, k := range keys {
			out = append(out, m[k])
		}
		return out
	},
	Init: func() interface{} { return false },
	Step: func(state, input, output interface{}) (bool, interface{}) {
		present := state.(bool)
		in := input.(c02In)
		out := output.(c02Out)
		switch in.kind {
		case "init-present":
			return true, true
		case "put":
			if out.err {
				return true, present // failed before taking effect
			}
			return true, true
		case "delete":
			if out.err {
				return true, present
			}
			return true, false
		default: // reads
			if out.err {
				return true, present
			}
			if out.found != present {
				return false, present
			}
			return true, present
		}
	},
	DescribeOperation: func(input, output interface{}) string {
		return fmt.Sprintf("%v -> %+v", input, output)
	},
}

func c02Run(t *testing.T, ci any, trace bool) *verifsim.Result {
	c := ci.(*c02Case)
	var hist []porcupine.Operation
	var wrongData string
	completeEnums := 0
	res := verifsim.Run(t, c.Cfg, trace, func(s *verifsim.Sim) {
		d := simds.New(s, "ds", nil)
		var opts []Option
		opts = append(opts, WriteThrough(c.WriteThrough))
		base := NewBlockstore(d, opts...)
		bg := context.Background()
		d.Quiet = true
		for _, k := range c.Prepop {
			if err := base.Put(bg, c02Block(k, false)); err != nil {
				panic(err)
			}
			hist = append(hist, porcupine.Operation{ClientId: 0, Input: c02In{"init-present", k}, Output: c02Out{}, Call: -2, Return: -1})
		}
		d.Quiet = false
		d.Faults = c.Faults
		d.Trace = func(kind, key string) {}
		buildCtx, cancelBuild := context.WithCancel(bg)
		defer cancelBuild()
		cbs, err := CachedBlockstore(buildCtx, base, CacheOpts{HasBloomFilterSize: c.BloomBytes, HasBloomFilterHashes: c.BloomHashes, HasTwoQueueCacheSize: c.TQSize})
		if err != nil {
			panic(err)
		}
		status, _ := cbs.(BloomCacheStatus)
		viewer, _ := cbs.(Viewer)

		record := func(client int, in c02In, inv int64, out c02Out) {
			hist = append(hist, porcupine.Operation{ClientId: client, Input: in, Output: out, Call: inv, Return: s.Seq()})
		}
		readOut := func(k int, data []byte, size int, err error) c02Out {
			if err != nil {
				if ipld.IsNotFound(err) {
					return c02Out{found: false}
				}
				return c02Out{err: true}
			}
			want := c02Block(k, false).RawData()
			if data != nil && !bytes.Equal(data, want) {
				wrongData = fmt.Sprintf("key %d: got %d bytes %q, want %q", k, len(data), data, want)
			}
			if size >= 0 && size != len(want) {
				wrongData = fmt.Sprintf("key %d: got size %d, want %d", k, size, len(want))
			}
			return c02Out{found: true}
		}
		for ci, ops := range c.Clients {
			ci, ops := ci, ops
			s.Go(fmt.Sprintf("client%d", ci), func() {
				for _, op := range ops {
					inv := s.Seq()
					s.Logf("c%d inv %s k%d %v", ci, op.Kind, op.Key, op.Keys)
					switch op.Kind {
					case "put":
						err := cbs.Put(bg, c02Block(op.Key, op.Alias))
						record(ci, c02In{"put", op.Key}, inv, c02Out{err: err != nil})
					case "putmany":
						var bl []blocks.Block
						for _, k := range op.Keys {
							bl = append(bl, c02Block(k, op.Alias))
						}
						err := cbs.PutMany(bg, bl)
						seen := map[int]bool{}
						for _, k := range op.Keys {
							if !seen[k] {
								seen[k] = true
								record(ci, c02In{"put", k}, inv, c02Out{err: err != nil})
							}
						}
					case "delete":
						err := cbs.DeleteBlock(bg, c02Block(op.Key, op.Alias).Cid())
						record(ci, c02In{"delete", op.Key}, inv, c02Out{err: err != nil})
					case "has":
						has, err := cbs.Has(bg, c02Block(op.Key, op.Alias).Cid())
						out := c02Out{found: has, err: err != nil}
						record(ci, c02In{"has", op.Key}, inv, out)
					case "get":
						b, err := cbs.Get(bg, c02Block(op.Key, op.Alias).Cid())
						var data []byte
						if b != nil {
							data = b.RawData()
							if data == nil {
								data = []byte{}
							}
						}
						record(ci, c02In{"get", op.Key}, inv, readOut(op.Key, data, -1, err))
					case "getsize":
						n, err := cbs.GetSize(bg, c02Block(op.Key, op.Alias).Cid())
						if err != nil {
							n = -1
						}
						record(ci, c02In{"getsize", op.Key}, inv, readOut(op.Key, nil, n, err))
					case "view":
						if viewer == nil {
							continue
						}
						var data []byte
						err := viewer.View(bg, c02Block(op.Key, op.Alias).Cid(), func(b []byte) error {
							data = append([]byte{}, b...)
							return nil
						})
						record(ci, c02In{"view", op.Key}, inv, readOut(op.Key, data, -1, err))
					case "rebuild":
						if status != nil {
							err := status.Rebuild(bg)
							s.Logf("c%d rebuild err=%v", ci, err != nil)
						}
					case "wait":
						if status != nil {
							ctx, cancel := context.WithTimeout(bg, time.Second)
							err := status.Wait(ctx)
							cancel()
							s.Logf("c%d wait err=%v", ci, err != nil)
						}
					case "cancelbuild":
						cancelBuild()
						s.Fault("build-ctx-cancel")
					}
					s.Logf("c%d ret %s", ci, op.Kind)
				}
			})
		}
		done := s.Loop()
		if !done && s.DeadlockSeen() {
			s.Failf("harness-deadlock", "client tasks blocked forever (not a C02 verdict by itself):\n%s", verifsim.StuckStacks())
		}
		// let the initial build finish
		s.Settle(2 * time.Second)
		completeEnums = d.CompleteEnumerations
		if status != nil && status.BloomActive() && completeEnums == 0 {
			s.Failf("active-without-complete-enumeration", "BloomActive() is true although no key enumeration ever ran to completion")
		}
		s.Drain()
		cancelBuild()
		time.Sleep(time.Second)
	})
	if res.Violation == nil && res.Panic == "" {
		if wrongData != "" {
			res.Violation = &verifsim.Violation{Class: "wrong-data", Msg: wrongData}
		} else if len(hist) > 0 {
			r, info := porcupine.CheckOperationsVerbose(c02Model, hist, 20*time.Second)
			switch r {
			case porcupine.Illegal:
				res.Violation = &verifsim.Violation{Class: "not-linearizable", Msg: "history is not linearizable against a per-multihash present/absent register:\n" + c02Describe(hist, info)}
			case porcupine.Unknown:
				res.Probes["porcupine-unknown"]++
			}
		}
	}
	return res
}

func c02Describe(hist []porcupine.Operation, info porcupine.LinearizationInfo) string {
	var b bytes.Buffer
	for _, op := range hist {
		fmt.Fprintf(&b, "  client%d [%d,%d] %v -> %+v\n", op.ClientId, op.Call, op.Return, op.Input, op.Output)
		if b.Len() > 6000 {
			b.WriteString("  ...\n")
			break
		}
	}
	return b.String()
}

func TestVerifC02(t *testing.T) {
	verifsim.Main(t, verifsim.Harness{
		Property: "C02",
		Name:     "cached-blockstore",
		Gen:      c02Gen,
		New:      func() any { return &c02Case{} },
		Run:      c02Run,
		Sample: func(c any) any {
			cc := *c.(*c02Case)
			cc.Cfg.Tape = nil
			return cc
		},
	})
}
