#!/usr/bin/env python3
"""Create patched copies of a few go1.26.8 standard-library files under
/verif/build/std and write the overlay fragment build/std_overlay.json.

Nothing is written into GOROOT. Every edit is anchored on an exact source
string that must occur exactly once; if the toolchain differs the script
fails loudly (exit 2) instead of producing a half-patched runtime.
See DESIGN.md section 3.1 / Appendix A for why each patch exists.
"""
import json, os, sys

GOROOT = os.environ.get("VERIF_GOROOT", "/opt/veriftools/go1.26.8")
OUT = os.path.join(os.path.dirname(os.path.abspath(__file__)), "..", "build", "std")
OUT = os.path.normpath(OUT)


def die(msg):
    sys.stderr.write("patchstd: " + msg + "\n")
    sys.exit(2)


def sub_once(text, old, new, fname):
    if text.count(old) != 1:
        die("%s: anchor occurs %d times (want 1): %r" % (fname, text.count(old), old[:70]))
    return text.replace(old, new)


PATCHES = {}

PATCHES["runtime/select.go"] = [
    ("j := cheaprandn(uint32(norder + 1))", "j := verifSelRandn(uint32(norder + 1))"),
]

PATCHES["runtime/rand.go"] = [
    (
        "func rand() uint64 {\n\t// Note: We avoid acquirem here",
        "func rand() uint64 {\n\tif verifStateA != 0 && getg().bubble != nil {\n\t\treturn verifNextB()\n\t}\n\t// Note: We avoid acquirem here",
    ),
    (
        "func maps_rand() uint64 {\n\treturn rand()\n}",
        "func maps_rand() uint64 {\n\tif verifStateA != 0 && getg().bubble != nil {\n\t\treturn verifNextB()\n\t}\n\treturn rand()\n}",
    ),
    (
        "// mrandinit initializes the random state of an m.",
        """// ---- verif: seeded runtime randomness inside synctest bubbles ----

var verifStateA uint64 // 0 = disabled

// VerifSeed makes runtime randomness (select order, map seeds, math/rand
// top-level functions) a function of s for goroutines inside a synctest
// bubble. VerifSeed(0) restores the stock behaviour.
func VerifSeed(s uint64) {
	if s == 0 {
		verifStateA = 0
		return
	}
	verifStateA = s | 1
	verifStateB = (s * 0x9e3779b97f4a7c15) | 1
	verifGoCount = 0
	verifTimerCount = 0
	// The scheduler looks at the global run queue every 61st scheduling tick of
	// the P. With more than 256 runnable goroutines (the local queue's capacity)
	// some spill to the global queue, and when they run would depend on how far
	// the tick counter got in earlier runs of this process.
	if pp := getg().m.p.ptr(); pp != nil {
		pp.schedtick = 0
	}
}

// VerifInBubble reports whether the calling goroutine is in a synctest bubble.
func VerifInBubble() bool { return getg().bubble != nil }

var verifPoolsOn bool

// VerifPools switches sync.Pool back on inside bubbles (for single-goroutine
// checks that target buffer reuse and clear the pools before every run).
func VerifPools(on bool) { verifPoolsOn = on }

// VerifBypassPools reports whether sync.Pool must not pool for the calling goroutine.
func VerifBypassPools() bool { return getg().bubble != nil && !verifPoolsOn }

// VerifClearPools empties every sync.Pool (primary and victim caches) the way two
// garbage collections would, without collecting. The caller must be the only
// running goroutine (one P): pool operations pin the P, so no other goroutine can be
// in the middle of one.
func VerifClearPools() {
	if poolcleanup != nil {
		poolcleanup()
		poolcleanup()
	}
}

// VerifGoid returns the calling goroutine's id.
func VerifGoid() uint64 { return getg().goid }

// verifForeign counts events of goroutines outside the bubble while a run is active:
// [0] goroutines created, [1] goroutines made runnable, [2] preemptions of a bubble goroutine.
var verifForeign [3]uint64

// VerifForeign returns the counters of non-bubble scheduler events seen during runs (debugging aid).
func VerifForeign() [3]uint64 { return verifForeign }

var verifDraws uint64

// VerifDraws returns how many values were drawn from the seeded stream (debugging aid).
func VerifDraws() uint64 { return verifDraws }

var verifTraceOn bool
var verifTrace [1 << 18][8]uintptr

// VerifTraceDraws switches recording of the call stack of every draw on or off (debugging aid).
func VerifTraceDraws(on bool) { verifTraceOn = on }

// VerifDrawStack returns the recorded call stack of draw number i.
func VerifDrawStack(i uint64) []uintptr { return verifTrace[i%(1<<18)][:] }

func verifNext() uint64 {
	verifDraws++
	if verifTraceOn {
		var pcs [12]uintptr
		n := callers(1, pcs[:])
		t := &verifTrace[verifDraws%(1<<18)]
		*t = [8]uintptr{}
		if n > 1 {
			copy(t[:], pcs[1:n])
		}
	}
	verifStateA += 0x9e3779b97f4a7c15
	z := verifStateA
	z = (z ^ (z >> 30)) * 0xbf58476d1ce4e5b9
	z = (z ^ (z >> 27)) * 0x94d049bb133111eb
	return z ^ (z >> 31)
}

// verifStateB is a second stream, for map seeds, map iteration offsets and the
// math/rand top-level functions. Scheduling-relevant choices (select order, order of
// timers that fire at the same instant) use the first stream only, so that code
// that creates a few maps more or less (lazy initialisation of process-wide
// caches, for example protobuf message descriptors) does not shift them.
//
// The second stream is per goroutine (g.verifB), split off the creating
// goroutine's stream, so that extra draws by one goroutine do not shift the map
// seeds of the others either. verifStateB seeds the bubble's root goroutine.
var verifStateB uint64

func verifMix(z uint64) uint64 {
	z = (z ^ (z >> 30)) * 0xbf58476d1ce4e5b9
	z = (z ^ (z >> 27)) * 0x94d049bb133111eb
	return z ^ (z >> 31)
}

func verifNextB() uint64 {
	gp := getg()
	if gp.verifB == 0 {
		gp.verifB = verifStateB
	}
	gp.verifB += 0x9e3779b97f4a7c15
	return verifMix(gp.verifB)
}

// verifSplit derives the stream of a newly created goroutine from the number of
// goroutines the run has created so far (the creating goroutine is not used:
// goroutines of AfterFunc timers are created by whichever goroutine runs the timer).
func verifSplit(gp *g) uint64 {
	verifGoCount++
	return verifMix(verifStateB^(verifGoCount*0x632be59bd9b4e019)) | 1
}

var verifGoCount uint64
var verifTimerCount uint64

//go:nosplit
func verifSelRandn(n uint32) uint32 {
	if verifStateA != 0 && getg().bubble != nil {
		return uint32((uint64(uint32(verifNext())) * uint64(n)) >> 32)
	}
	return cheaprandn(n)
}

// mrandinit initializes the random state of an m.""",
    ),
]

PATCHES["runtime/time.go"] = [
    # go1.26 orders fake timers that fire at the same instant by a per-timer random value.
    # Here the order of such a tie is a function of the run's seed, the two timers' creation
    # ordinals in the run and the firing time, computed when two heap entries are compared.
    # It is neither drawn from a stream nor stored: a stored value is refreshed only when a
    # timer is (re-)added to the heap, and whether a reset timer is still in the heap depends
    # on how far the lazy removal of stopped timers has got.
    ("\t\treturn tw.timer.rand < other.timer.rand\n",
     "\t\tif verifStateA != 0 && tw.timer.verifID != 0 && other.timer.verifID != 0 {\n"
     "\t\t\ta := verifMix(verifStateB ^ (tw.timer.verifID * 0x9e3779b97f4a7c15) ^ uint64(tw.when))\n"
     "\t\t\tb := verifMix(verifStateB ^ (other.timer.verifID * 0x9e3779b97f4a7c15) ^ uint64(other.when))\n"
     "\t\t\tif a != b {\n\t\t\t\treturn a < b\n\t\t\t}\n"
     "\t\t\treturn tw.timer.verifID < other.timer.verifID\n\t\t}\n"
     "\t\treturn tw.timer.rand < other.timer.rand\n"),
    ("\t\t\tt.rand = cheaprand()", "\t\t\tif verifStateA != 0 {\n\t\t\t\tif t.verifID == 0 {\n\t\t\t\t\tverifTimerCount++\n\t\t\t\t\tt.verifID = verifTimerCount\n\t\t\t\t}\n\t\t\t\tt.rand = uint32(verifMix(verifStateB ^ (t.verifID * 0x9e3779b97f4a7c15) ^ uint64(t.when)))\n\t\t\t} else {\n\t\t\t\tt.rand = cheaprand()\n\t\t\t}"),
    # creation ordinal: assigned where a fake timer is made (time.NewTimer/AfterFunc/Ticker
    # and the per-goroutine sleep timer), in program order of the simulated run
    ("\tif bubble := getg().bubble; bubble != nil {\n\t\tt.isFake = true\n\t}\n\tt.modify(when, period, f, arg, 0)\n",
     "\tif bubble := getg().bubble; bubble != nil {\n\t\tt.isFake = true\n\t\tif verifStateA != 0 {\n\t\t\tverifTimerCount++\n\t\t\tt.verifID = verifTimerCount\n\t\t}\n\t}\n\tt.modify(when, period, f, arg, 0)\n"),
    ("\t\tif gp.bubble != nil {\n\t\t\tt.isFake = true\n\t\t}\n\t\tgp.timer = t\n",
     "\t\tif gp.bubble != nil {\n\t\t\tt.isFake = true\n\t\t\tif verifStateA != 0 {\n\t\t\t\tverifTimerCount++\n\t\t\t\tt.verifID = verifTimerCount\n\t\t\t}\n\t\t}\n\t\tgp.timer = t\n"),
    ("\trand    uint32 // randomizes order of timers at same instant; only set when isFake\n",
     "\trand    uint32 // randomizes order of timers at same instant; only set when isFake\n\tverifID uint64 // verif: creation ordinal within the simulated run\n"),
]

PATCHES["runtime/alg.go"] = [
    ("hashkey[i] = uintptr(bootstrapRand())", "hashkey[i] = uintptr(0x9e3779b97f4a7c15 * uint64(i+1))"),
    ("key[i] = bootstrapRand()", "key[i] = 0x9e3779b97f4a7c15 * uint64(i+1)"),
]

PATCHES["runtime/runtime2.go"] = [
    ("\tcoroarg *coro // argument during coroutine transfers\n\tbubble  *synctestBubble\n",
     "\tcoroarg *coro // argument during coroutine transfers\n\tbubble  *synctestBubble\n\tverifB  uint64 // verif: this goroutine's stream for map seeds / math/rand\n"),
    (
        "\twaitReasonSynctestSelect:        true,\n}",
        "\twaitReasonSynctestSelect:        true,\n\twaitReasonSyncMutexLock:         true,\n\twaitReasonSyncRWMutexRLock:      true,\n\twaitReasonSyncRWMutexLock:       true,\n}",
    ),
]

PATCHES["runtime/proc.go"] = [
    # every goroutine of a bubble gets its own stream for map seeds, split off its
    # parent's stream at creation (see verifNextB)
    ("\t\tnewg.bubble = callergp.bubble\n",
     "\t\tnewg.bubble = callergp.bubble\n\t\tnewg.verifB = 0\n\t\tif verifStateA != 0 && callergp.bubble != nil {\n\t\t\tnewg.verifB = verifSplit(callergp)\n\t\t}\n"),
    ("const forcePreemptNS = 10 * 1000 * 1000 // 10ms", "const forcePreemptNS = 3600 * 1000 * 1000 * 1000 // verif: 1h"),
    # sysmon preempts the goroutine of a P whose scheduling tick has not moved since
    # sysmon last wrote it down more than forcePreemptNS ago. VerifSeed resets the tick
    # at the start of every run, so an old note (or the initial one: tick 0 at time 0)
    # can match by accident, and the preempted goroutine goes to the global queue: one
    # process in about 3000 ordered two runnable goroutines differently in one run.
    # No time-slice preemption at all during a simulated run.
    ("\t\t} else if pd.schedwhen+forcePreemptNS <= now {\n",
     "\t\t} else if verifStateA == 0 && pd.schedwhen+forcePreemptNS <= now {\n"),
    # A goroutine of the runtime itself (scavenger, sweeper, finalizer and cleanup
    # goroutines, real timers) that becomes runnable during a simulated run must not
    # take the "run next" slot: that would push the bubble goroutine sitting there to the
    # tail of the run queue and change the order of the simulated goroutines depending on
    # wall-clock events.
    ("\trunqput(mp.p.ptr(), gp, next)\n\twakep()\n\treleasem(mp)\n}\n",
     "\tif verifStateA != 0 && gp.bubble == nil {\n\t\tnext = false\n\t\tverifForeign[1]++\n\t}\n\trunqput(mp.p.ptr(), gp, next)\n\twakep()\n\treleasem(mp)\n}\n"),
    # the same for a goroutine created outside the bubble during a run (cleanup and
    # finalizer goroutines are created on demand by whoever registers a cleanup; the
    # test binary's own goroutines)
    ("\t\tpp := getg().m.p.ptr()\n\t\trunqput(pp, newg, true)\n\n\t\tif mainStarted {\n",
     "\t\tpp := getg().m.p.ptr()\n\t\tif verifStateA != 0 && newg.bubble == nil {\n\t\t\tverifForeign[0]++\n\t\t\trunqput(pp, newg, false)\n\t\t} else {\n\t\t\trunqput(pp, newg, true)\n\t\t}\n\n\t\tif mainStarted {\n"),
    # preemption of a bubble goroutine (counted only; it goes to the global queue)
    ("\tdropg()\n\tif preempted && sched.gcwaiting.Load() {\n",
     "\tdropg()\n\tif preempted && verifStateA != 0 && gp.bubble != nil {\n\t\tverifForeign[2]++\n\t}\n\tif preempted && sched.gcwaiting.Load() {\n"),
    # sysmon takes the P away from a goroutine that sits in a system call for more than
    # a tick (20 us .. 10 ms, wall-clock) when other goroutines are runnable, and the
    # goroutine then comes back through the global queue: which goroutine runs next
    # would depend on how long a getrandom / write call happened to take.
    ("\t\t// Drop allpLock so we can take sched.lock.\n\t\tunlock(&allpLock)\n",
     "\t\tif verifStateA != 0 && !sysretake {\n\t\t\tcontinue // verif: never retake a P from a system call during a simulated run\n\t\t}\n\n\t\t// Drop allpLock so we can take sched.lock.\n\t\tunlock(&allpLock)\n"),
]

# sync.Mutex decides between normal and starvation mode by how long a waiter has
# waited in *real* time (1 ms). In a simulated run a waiter is parked for as long as
# the scheduler and the host need, so which mode a contended mutex is in (and with it
# who gets the lock next) would depend on the load of the machine. Inside a bubble the
# mutex sees the bubble's fake clock instead.
PATCHES["runtime/sema.go"] = [
    ("func internal_sync_nanotime() int64 {\n\treturn nanotime()\n}",
     "func internal_sync_nanotime() int64 {\n\tif verifStateA != 0 {\n\t\tif b := getg().bubble; b != nil {\n\t\t\treturn b.now\n\t\t}\n\t}\n\treturn nanotime()\n}"),
]

HOOK = "\tif h := VerifFSHook; h != nil {\n\t\tif e := h(%s); e != nil {\n\t\t\treturn %s\n\t\t}\n\t}\n"

# sync.Pool: inside a bubble nothing is pooled. Whether Get finds a pooled object
# depends on what earlier runs of the same process left behind and on when the
# collector last ran; a hit skips allocations (maps, whose seeds come from the
# seeded stream) that a miss performs, so a run would depend on the history of
# its process and a fresh-process replay could take another path.
PATCHES["sync/pool.go"] = [
    ("func (p *Pool) Put(x any) {\n\tif x == nil {\n\t\treturn\n\t}\n",
     "func (p *Pool) Put(x any) {\n\tif x == nil {\n\t\treturn\n\t}\n\tif runtime.VerifBypassPools() {\n\t\treturn\n\t}\n"),
    ("func (p *Pool) Get() any {\n",
     "func (p *Pool) Get() any {\n\tif runtime.VerifBypassPools() {\n\t\tif p.New != nil {\n\t\t\treturn p.New()\n\t\t}\n\t\treturn nil\n\t}\n"),
]

PATCHES["os/file.go"] = [
    (
        "func (f *File) Write(b []byte) (n int, err error) {\n\tif err := f.checkValid(\"write\"); err != nil {\n\t\treturn 0, err\n\t}\n",
        "func (f *File) Write(b []byte) (n int, err error) {\n\tif err := f.checkValid(\"write\"); err != nil {\n\t\treturn 0, err\n\t}\n"
        + HOOK % ('"write", f.name, "", b', "0, e"),
    ),
    (
        "func OpenFile(name string, flag int, perm FileMode) (*File, error) {\n",
        "func OpenFile(name string, flag int, perm FileMode) (*File, error) {\n"
        + "\tif flag&(O_WRONLY|O_RDWR|O_CREATE|O_TRUNC|O_APPEND) != 0 {\n"
        + "\t\tif h := VerifFSHook; h != nil {\n\t\t\tif e := h(\"open\", name, verifItoa(flag), nil); e != nil {\n\t\t\t\treturn nil, e\n\t\t\t}\n\t\t}\n\t}\n",
    ),
    (
        "func Rename(oldpath, newpath string) error {\n",
        "func Rename(oldpath, newpath string) error {\n" + HOOK % ('"rename", oldpath, newpath, nil', "e"),
    ),
    (
        "var errPathEscapes = errors.New(\"path escapes from parent\")",
        "var errPathEscapes = errors.New(\"path escapes from parent\")\n\n"
        "// VerifFSHook, when non-nil, is called before mutating file-system\n"
        "// operations (verif simulation seam). A non-nil result fails the operation.\n"
        "var VerifFSHook func(op, name, arg string, data []byte) error\n\n"
        "func verifItoa(v int) string {\n\tif v == 0 {\n\t\treturn \"0\"\n\t}\n\tvar b [24]byte\n\ti := len(b)\n\tfor v > 0 {\n\t\ti--\n\t\tb[i] = byte('0' + v%10)\n\t\tv /= 10\n\t}\n\treturn string(b[i:])\n}",
    ),
]

PATCHES["os/file_posix.go"] = [
    (
        "func (f *File) Close() error {\n\tif f == nil {\n\t\treturn ErrInvalid\n\t}\n",
        "func (f *File) Close() error {\n\tif f == nil {\n\t\treturn ErrInvalid\n\t}\n" + HOOK % ('"close", f.name, "", nil', "e"),
    ),
    (
        "func (f *File) Sync() error {\n\tif err := f.checkValid(\"sync\"); err != nil {\n\t\treturn err\n\t}\n",
        "func (f *File) Sync() error {\n\tif err := f.checkValid(\"sync\"); err != nil {\n\t\treturn err\n\t}\n" + HOOK % ('"sync", f.name, "", nil', "e"),
    ),
]

PATCHES["os/file_unix.go"] = [
    (
        "func Remove(name string) error {\n",
        "func Remove(name string) error {\n" + HOOK % ('"remove", name, "", nil', "e"),
    ),
]


NEWFILES = {
    "testing/synctest/zz_verif.go": """package synctest

import "internal/synctest"

// VerifRun runs f as the root goroutine of a new bubble without the
// testing.T plumbing of Test (verif simulation kernel).
func VerifRun(f func()) { synctest.Run(f) }
""",
}


def main():
    overlay = {}
    for rel, text in NEWFILES.items():
        dst = os.path.join(OUT, rel)
        os.makedirs(os.path.dirname(dst), exist_ok=True)
        with open(dst, "w") as f:
            f.write(text)
        overlay[os.path.join(GOROOT, "src", rel)] = dst
    for rel, edits in PATCHES.items():
        src = os.path.join(GOROOT, "src", rel)
        try:
            text = open(src).read()
        except OSError as e:
            die(str(e))
        for old, new in edits:
            text = sub_once(text, old, new, rel)
        dst = os.path.join(OUT, rel)
        os.makedirs(os.path.dirname(dst), exist_ok=True)
        with open(dst, "w") as f:
            f.write(text)
        overlay[src] = dst
    with open(os.path.join(OUT, "..", "std_overlay.json"), "w") as f:
        json.dump({"Replace": overlay}, f, indent=1)
    print("patchstd: %d files patched into %s" % (len(overlay), OUT))


if __name__ == "__main__":
    main()
