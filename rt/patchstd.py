#!/usr/bin/env python3
"""Create patched copies of a few go1.26.8 standard-library files under
/verif/build/std and write the overlay fragment build/std_overlay.json.

Nothing is written into GOROOT. Every edit is anchored on an exact source
string that must occur exactly once; if the toolchain differs the script
fails loudly (exit 2) instead of producing a half-patched runtime.
See DESIGN.md section 3.1 / Appendix A for why each patch exists.
"""
import json, os, sys

GOROOT = os.environ.get("VERIF_GOROOT", "/opt/veriftools/go1.26.8")
OUT = os.path.join(os.path.dirname(os.path.abspath(__file__)), "..", "build", "std")
OUT = os.path.normpath(OUT)


def die(msg):
    sys.stderr.write("patchstd: " + msg + "\n")
    sys.exit(2)


def sub_once(text, old, new, fname):
    if text.count(old) != 1:
        die("%s: anchor occurs %d times (want 1): %r" % (fname, text.count(old), old[:70]))
    return text.replace(old, new)


PATCHES = {}

PATCHES["runtime/select.go"] = [
    ("j := cheaprandn(uint32(norder + 1))", "j := verifSelRandn(uint32(norder + 1))"),
]

PATCHES["runtime/rand.go"] = [
    (
        "func rand() uint64 {\n\t// Note: We avoid acquirem here",
        "func rand() uint64 {\n\tif verifStateA != 0 && getg().bubble != nil {\n\t\treturn verifNext()\n\t}\n\t// Note: We avoid acquirem here",
    ),
    (
        "func maps_rand() uint64 {\n\treturn rand()\n}",
        "func maps_rand() uint64 {\n\tif verifStateA != 0 && getg().bubble != nil {\n\t\treturn verifNext()\n\t}\n\treturn rand()\n}",
    ),
    (
        "// mrandinit initializes the random state of an m.",
        """// ---- verif: seeded runtime randomness inside synctest bubbles ----

var verifStateA uint64 // 0 = disabled

// VerifSeed makes runtime randomness (select order, map seeds, math/rand
// top-level functions) a function of s for goroutines inside a synctest
// bubble. VerifSeed(0) restores the stock behaviour.
func VerifSeed(s uint64) {
	if s == 0 {
		verifStateA = 0
		return
	}
	verifStateA = s | 1
}

// VerifInBubble reports whether the calling goroutine is in a synctest bubble.
func VerifInBubble() bool { return getg().bubble != nil }

// VerifGoid returns the calling goroutine's id.
func VerifGoid() uint64 { return getg().goid }

//go:nosplit
func verifNext() uint64 {
	verifStateA += 0x9e3779b97f4a7c15
	z := verifStateA
	z = (z ^ (z >> 30)) * 0xbf58476d1ce4e5b9
	z = (z ^ (z >> 27)) * 0x94d049bb133111eb
	return z ^ (z >> 31)
}

//go:nosplit
func verifSelRandn(n uint32) uint32 {
	if verifStateA != 0 && getg().bubble != nil {
		return uint32((uint64(uint32(verifNext())) * uint64(n)) >> 32)
	}
	return cheaprandn(n)
}

// mrandinit initializes the random state of an m.""",
    ),
]

PATCHES["runtime/time.go"] = [
    # go1.26 orders fake timers that fire at the same instant by a per-timer random value
    ("\t\t\tt.rand = cheaprand()", "\t\t\tif verifStateA != 0 {\n\t\t\t\tt.rand = uint32(verifNext())\n\t\t\t} else {\n\t\t\t\tt.rand = cheaprand()\n\t\t\t}"),
]

PATCHES["runtime/alg.go"] = [
    ("hashkey[i] = uintptr(bootstrapRand())", "hashkey[i] = uintptr(0x9e3779b97f4a7c15 * uint64(i+1))"),
    ("key[i] = bootstrapRand()", "key[i] = 0x9e3779b97f4a7c15 * uint64(i+1)"),
]

PATCHES["runtime/runtime2.go"] = [
    (
        "\twaitReasonSynctestSelect:        true,\n}",
        "\twaitReasonSynctestSelect:        true,\n\twaitReasonSyncMutexLock:         true,\n\twaitReasonSyncRWMutexRLock:      true,\n\twaitReasonSyncRWMutexLock:       true,\n}",
    ),
]

PATCHES["runtime/proc.go"] = [
    ("const forcePreemptNS = 10 * 1000 * 1000 // 10ms", "const forcePreemptNS = 3600 * 1000 * 1000 * 1000 // verif: 1h"),
]

HOOK = "\tif h := VerifFSHook; h != nil {\n\t\tif e := h(%s); e != nil {\n\t\t\treturn %s\n\t\t}\n\t}\n"

PATCHES["os/file.go"] = [
    (
        "func (f *File) Write(b []byte) (n int, err error) {\n\tif err := f.checkValid(\"write\"); err != nil {\n\t\treturn 0, err\n\t}\n",
        "func (f *File) Write(b []byte) (n int, err error) {\n\tif err := f.checkValid(\"write\"); err != nil {\n\t\treturn 0, err\n\t}\n"
        + HOOK % ('"write", f.name, "", b', "0, e"),
    ),
    (
        "func OpenFile(name string, flag int, perm FileMode) (*File, error) {\n",
        "func OpenFile(name string, flag int, perm FileMode) (*File, error) {\n"
        + "\tif flag&(O_WRONLY|O_RDWR|O_CREATE|O_TRUNC|O_APPEND) != 0 {\n"
        + "\t\tif h := VerifFSHook; h != nil {\n\t\t\tif e := h(\"open\", name, verifItoa(flag), nil); e != nil {\n\t\t\t\treturn nil, e\n\t\t\t}\n\t\t}\n\t}\n",
    ),
    (
        "func Rename(oldpath, newpath string) error {\n",
        "func Rename(oldpath, newpath string) error {\n" + HOOK % ('"rename", oldpath, newpath, nil', "e"),
    ),
    (
        "var errPathEscapes = errors.New(\"path escapes from parent\")",
        "var errPathEscapes = errors.New(\"path escapes from parent\")\n\n"
        "// VerifFSHook, when non-nil, is called before mutating file-system\n"
        "// operations (verif simulation seam). A non-nil result fails the operation.\n"
        "var VerifFSHook func(op, name, arg string, data []byte) error\n\n"
        "func verifItoa(v int) string {\n\tif v == 0 {\n\t\treturn \"0\"\n\t}\n\tvar b [24]byte\n\ti := len(b)\n\tfor v > 0 {\n\t\ti--\n\t\tb[i] = byte('0' + v%10)\n\t\tv /= 10\n\t}\n\treturn string(b[i:])\n}",
    ),
]

PATCHES["os/file_posix.go"] = [
    (
        "func (f *File) Close() error {\n\tif f == nil {\n\t\treturn ErrInvalid\n\t}\n",
        "func (f *File) Close() error {\n\tif f == nil {\n\t\treturn ErrInvalid\n\t}\n" + HOOK % ('"close", f.name, "", nil', "e"),
    ),
    (
        "func (f *File) Sync() error {\n\tif err := f.checkValid(\"sync\"); err != nil {\n\t\treturn err\n\t}\n",
        "func (f *File) Sync() error {\n\tif err := f.checkValid(\"sync\"); err != nil {\n\t\treturn err\n\t}\n" + HOOK % ('"sync", f.name, "", nil', "e"),
    ),
]

PATCHES["os/file_unix.go"] = [
    (
        "func Remove(name string) error {\n",
        "func Remove(name string) error {\n" + HOOK % ('"remove", name, "", nil', "e"),
    ),
]


NEWFILES = {
    "testing/synctest/zz_verif.go": """package synctest

import "internal/synctest"

// VerifRun runs f as the root goroutine of a new bubble without the
// testing.T plumbing of Test (verif simulation kernel).
func VerifRun(f func()) { synctest.Run(f) }
""",
}


def main():
    overlay = {}
    for rel, text in NEWFILES.items():
        dst = os.path.join(OUT, rel)
        os.makedirs(os.path.dirname(dst), exist_ok=True)
        with open(dst, "w") as f:
            f.write(text)
        overlay[os.path.join(GOROOT, "src", rel)] = dst
    for rel, edits in PATCHES.items():
        src = os.path.join(GOROOT, "src", rel)
        try:
            text = open(src).read()
        except OSError as e:
            die(str(e))
        for old, new in edits:
            text = sub_once(text, old, new, rel)
        dst = os.path.join(OUT, rel)
        os.makedirs(os.path.dirname(dst), exist_ok=True)
        with open(dst, "w") as f:
            f.write(text)
        overlay[src] = dst
    with open(os.path.join(OUT, "..", "std_overlay.json"), "w") as f:
        json.dump({"Replace": overlay}, f, indent=1)
    print("patchstd: %d files patched into %s" % (len(overlay), OUT))


if __name__ == "__main__":
    main()
